#!/bin/bash
# Idempotent: builds /verif/.venv (overlay on /venv) with crosshair-tool + z3-solver from the offline wheelhouse.
set -e
V=/verif/.venv
if [ -x "$V/bin/python" ] && "$V/bin/python" -c "import crosshair, z3, formulaic, numpy, pandas" >/dev/null 2>&1; then
  exit 0
fi
exec 9>/verif/.venv.lock
flock 9
if [ -x "$V/bin/python" ] && "$V/bin/python" -c "import crosshair, z3, formulaic, numpy, pandas" >/dev/null 2>&1; then
  exit 0
fi
rm -rf "$V"
/venv/bin/python -m venv "$V"
SP="$V/lib/python3.12/site-packages"
echo "import site; site.addsitedir('/venv/lib/python3.12/site-packages')" > "$SP/_ov.pth"
PIP_NO_INDEX=1 "$V/bin/pip" install -q --no-index --find-links /opt/veriftools/wheels crosshair-tool z3-solver >/dev/null
"$V/bin/python" -c "import crosshair, z3, formulaic, numpy, pandas"
