#!/usr/bin/env python3
"""Run the repository's pinned test command (hooks guard OFF) and compare with BASELINE.json's stable_pass list."""
import json, os, subprocess, sys, tempfile, xml.etree.ElementTree as ET

base = json.load(open("/root/.vp/BASELINE.json")) if os.path.exists("/root/.vp/BASELINE.json") else None
env = dict(os.environ)
env.pop("FORMULAIC_VERIF", None)
with tempfile.TemporaryDirectory() as d:
    xml = os.path.join(d, "r.xml")
    cmd = ["/venv/bin/python", "-m", "pytest", "-ra", "-q", "-p", "no:cacheprovider", "--timeout=900",
           "--continue-on-collection-errors", f"--junitxml={xml}"]
    p = subprocess.run(cmd, cwd="/repo", env=env, stdout=subprocess.PIPE, stderr=subprocess.STDOUT, text=True)
    passed = set()
    for tc in ET.parse(xml).getroot().iter("testcase"):
        if not any(ch.tag in ("failure", "error", "skipped") for ch in tc):
            passed.add(f"{tc.get('classname')}::{tc.get('name')}")
if base is None:
    print(f"passed={len(passed)} (no BASELINE.json to compare with)")
    sys.exit(0)
want = set(base["stable_pass"])
missing = sorted(want - passed)
print(f"stable_pass={len(want)} passed_now={len(passed)} missing={len(missing)}")
for m in missing[:40]:
    print("  MISSING", m)
sys.exit(1 if missing else 0)
