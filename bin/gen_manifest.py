#!/usr/bin/env python3
"""Regenerates /verif/MANIFEST.json from the table below (single source of truth for what is claimed)."""
import json
import os

V = os.path.dirname(os.path.dirname(os.path.abspath(__file__)))

CHECKS = {
    # pid: (engine, technique, level text, level note, design ref)
    "C13": (
        "SR",
        "symbolic execution of the real numpy code on z3 real terms (object arrays) + z3 QF_NRA/UF unsat queries; counterexamples replayed natively",
        "Bounded solver-checked: for every real input vector (n<=4 quick / n<=6 thorough) and every recorded state, the "
        "real scale/center/standardize/poly code satisfies its contract over the reals; TRANSFORMS names bind the function they denote.",
        "Real arithmetic, not float64; numpy.array/empty/isnan stubs listed in evidence; transcendental functions are uninterpreted symbols; vector lengths bounded.",
        "DESIGN.md §3 C13",
    ),
}

SR_TECH = "symbolic execution of the real code on z3 real terms inside numpy object arrays (decision-prefix path exploration) + z3 QF_NRA unsat queries per path; counterexamples replayed natively before reporting"
CHECKS.update({
    "C02": ("SR", SR_TECH,
            "Bounded solver-checked: for every real value of every numeric cell, each column of model_matrix(...) equals literal scale x product of the pieces its label names (independent label parser), and with ensure_full_rank=False the label list is the complete Kronecker product in term order; configurations (term families <=3 terms x <=3 factors, intercept, rank mode, pandas/numpy output) enumerated.",
            "Reals not floats; numeric columns enter through `context` as object arrays (ndarray branch of the encoders); sparse output, the Series branch and the narwhals materializer are visited natively at one generic point per configuration (ground companions, not solver-decided); treatment, sum and helmert codings only (others: C11); 7-row crossed layout (+ a one-row and a one-level layout) with A:3 and B:2 levels.",
            "DESIGN.md §3 C02"),
    "C12": ("SR", SR_TECH + "; independent references: Cox-de Boor over z3 terms, cardinal interpolating splines solved in exact rationals",
            "Bounded solver-checked: for every real x (one row), on every path through the real basis_spline / cubic_spline, each column equals the independent reference, is non-negative and sums to one inside the bounds, and out-of-range values follow the selected extrapolation mode; degrees 0..3 (0..5 thorough), knot menus incl. ties, df-derived knots from concrete training vectors, centering constraint.",
            "Concrete knot menus and bounds; F matrices computed in float64 by the real code enter as exact rationals, comparison tolerance 1e-9; cyclic x restricted to [lb-2P, ub+2P], natural to [lb-100, ub+100].",
            "DESIGN.md §3 C12"),
    "C16": ("SR", SR_TECH + "; every numeric literal is a distinct symbolic real (ast.literal_eval rebound inside utils/constraints.py)",
            "Bounded solver-checked: for all literal values and all x, the (A, b) returned by LinearConstraints.from_spec satisfies A.x - b == lhs(x) - rhs(x) as read by an independent evaluator, rows in written order, for every expression tree of depth <=2 over {a, b, literal} in two renderings, '=' and ',' combinations and the three specification forms; anything else must be rejected.",
            "Depth <= 2 trees, 2 column names, <= 3 constraints; written divisors assumed non-zero; stubs: ast.literal_eval placeholders, numpy.zeros/eye/array -> object dtype.",
            "DESIGN.md §3 C16"),
    "C04": ("SR", SR_TECH,
            "Bounded solver-checked: for all numeric values, the spec attached to a model matrix reproduces it on the original data, yields the same names in the same order and the corresponding rows on every row map of <=3 training rows, encodes a training row mixed with fresh symbolic rows exactly as at training time (state not re-fitted), keeps fresh rows independent of their companions, emits all-zero columns for lost levels and behaves identically after a pickle round trip; per-transform inductive step from arbitrary recorded states (with C13/C12).",
            "19 formulas over the built-in stateful/stateless transforms; spline formulas are trained on one concrete 7-row data set and followed up with 2 symbolic rows (values in [-2, 12]); lag and hashed excluded.",
            "DESIGN.md §3 C04"),
    "C05": ("SR", SR_TECH + "; sparse / pyarrow legs evaluated natively at one concrete point (labelled ground companions)",
            "PARTIAL. Bounded solver-checked for the dense legs: four entry points x {pandas, numpy} x {pandas materializer, narwhals on a pandas frame} give the same column order and the same cells for all numeric values. Sparse output and narwhals-on-pyarrow are compared at one concrete generic point only (not solver-decided).",
            "sparse and Arrow legs cannot carry symbolic cells (scipy.sparse / Arrow buffers): ground companions only; null policies are C06's subject.",
            "DESIGN.md §3 C05"),
    "C10": ("SR", "real specs produced by the SR pipeline; metadata lookups decided natively on the realised objects (CrossHair masks hash/eq defects), subset regeneration compared cell by cell as z3 terms (mostly reflexive; residual queries QF_NRA)",
            "Bounded: for 14-term menu families (<=3 terms, incl. unsorted-factor, zero-column and multi-column terms) x intercept x rank mode x output: names = labels, term ranges contiguous/disjoint/ordered/covering, lookups by object / printed form / column name / variable agree with them, and spec.subset(S) regenerates the parent's columns for all numeric values.",
            "Mostly ground facts on realised specs; the solver's share is small here (evidence reports solver_queries). Known findings: printed-form lookups of terms whose factors are not sorted.",
            "DESIGN.md §3 C10"),
    "C06": ("SR", "hybrid: null layouts / entry points / index kinds enumerated; a symbolic tag column flows through the real pipeline and row identity is a solver-confirmed term identity (QF_LRA); policy facts compared natively with the documented semantics",
            "Bounded: over every NaN layout of two nullable columns on 3 (quick) / 4 (thorough) rows (plus None in a categorical, pd.NA in nullable Int64/boolean) x 10 formulas x 3 policies x caller drop sets x 4 entry points x 4 index kinds x outputs x override: every output row of every part IS the expected input row for all tag values, pandas index is the positional sub-index, the caller's set ends as exactly the removed positions, raise/ignore behave as documented.",
            "Mostly enumeration (evidence: enumerated dimensions >> symbolic inputs); nulls inside symbolic columns excluded; quick visits a seeded slice of the variant dimensions for every (layout, formula, policy) cell; sparse output and the narwhals materializer are visited natively (ground companions; index labels are judged on the pandas materializer only). Known finding: nullable boolean NA + ignore + sparse.",
            "DESIGN.md §3 C06"),
    "C07": ("SR", "hybrid SR: symbolic numeric columns (tag, a, b) + enumerated null layouts over the variables of different parts; per-part equalities as z3 term identities / QF_NRA queries",
            "Bounded: for 16 structured specs (~, |, keyword and tuple nestings two deep, transform-sharing) x null layouts x index kinds x outputs: result and .model_spec have the formula's nested shape, all parts keep the same rows, each part equals for all values the separate build of its terms with the joint drop set, what its own spec regenerates, what the structured spec regenerates jointly, and replays its recorded state on a row subset.",
            "4 rows; nesting <= 2; multistage formulas excluded; sparse output and the narwhals materializer visited natively (ground companions).",
            "DESIGN.md §3 C07"),
    "C03": ("SR", "real pipeline builds reduced and unreduced matrices on a crossed design; z3 QF_LRA decides over the coefficient vector (the universally quantified object): no non-zero c with R.c = 0, span inclusions both ways, with an explicit 1e-8 margin on the exact rationals of the computed cells; second generic point + native float-rank replay before reporting",
            "Bounded: for every ordered family of <=2 terms (quick; + 300 seeded 3-term families; thorough: all 2955 ordered families) over the 15 factor subsets of {A(2), B(3), D(2), a numeric}, intercept on/off, clustering on/off, and the built-in contrasts for <=2-term families: the rank-reduced matrix has independent columns and the same column space as the unreduced one.",
            "Numeric data concrete (two generic rational points stand for 'general position'); fully crossed design replicated 3x (36 rows); <=3 terms, <=3 levels.",
            "DESIGN.md §3 C03"),
    "C11": ("SR", "ground facts per (n, contrast, options) against closed-form exact-rational references; z3 QF_LRA for invertibility of [1|coding] over all coefficient vectors; Engine SR (QF_NRA) for contr.poly with symbolic scores and for encoding == a_i x coding[level_i] through the real pipeline with a symbolic numeric column",
            "Bounded to n <= 8 ('for every n' cannot be made symbolic): shape, identity full coding, coefficient matrix = inverse, zero sums, dense = sparse, equality with the standard definitions, invertibility (solver); encoding of data = indicator x coding for all values of an interacting numeric column, incl. reference levels, explicit level lists, absent levels and null rows (3-4 levels).",
            "n <= 8; label types str/int/mixed; pipeline part on 3 (4 with explicit lists) levels; evidence separates ground from solver-discharged obligations.",
            "DESIGN.md §3 C11"),
    "C09": ("SR+CH", SR_TECH + "; CrossHair exploration of _enforce_structure over name-equality patterns",
            "Bounded solver-checked: on every path and for all values, a spec recorded with a categorical factor raises FactorEncodingError when that column arrives as a (symbolic) numeric vector, and vice versa (ground); unseen levels leave names/shape unchanged, are announced with DataMismatchWarning and leave all other cells unchanged for all numeric values; _enforce_structure either raises FactorEncodingError or yields exactly the recorded columns in recorded order.",
            "8 formulas, 7 rows; absent levels are exercised in C04; variables inside transform calls (poly(a,2)) fail earlier with FactorEvaluationError and are not counted.",
            "DESIGN.md §3 C09"),
    "C18": ("SR", SR_TECH,
            "PARTIAL (hash-seed leg not solver-decided). Bounded solver-checked: for histories of <=3 calls from {model_matrix, spec reuse, unmaterialized-spec use, Formula method} x {D1, D2} over shared formula/spec objects with symbolic data, each call's result equals, cell by cell for all values, the same call made first on fresh objects; input arrays, frames, formula and every previously obtained spec's state are unchanged after every call.",
            "PYTHONHASHSEED is a per-process constant of the C runtime and cannot be a symbolic variable: a native companion re-runs a fixed battery under several seeds in subprocesses and compares the serialised results (labelled ground; not solver-decided). 10 formulas + generated ones, 7 rows, histories <= 3 over 10 operations (incl. re-used materializer objects); recorded state keys compared; a native leg runs histories with raw float64 context arrays (incl. lag).",
            "DESIGN.md §3 C18"),
    "C20": ("SR+CH", SR_TECH + "; term-level structure by CrossHair enumeration of factor subsets / wrt tuples",
            "Bounded solver-checked: for term families (<=3 terms from a 12-term multilinear menu incl. categorical interactions and literal scalings) and wrt tuples of <=2 variables, every non-zero derivative term's materialised columns equal the iterated finite difference of the original term's columns for ALL data and ALL steps h != 0, zero derivatives have identically vanishing differences, and the number/order of terms is preserved.",
            "use_sympy=True not available (sympy absent from /venv); multilinear menu only.",
            "DESIGN.md §3 C20"),
    "C19": ("CH", "CrossHair 0.0.110 (z3) symbolic execution of the real container classes, one law per harness function, one process per (law, shard); 'Confirmed over all paths' required; reachability twin per harness; counterexamples replayed natively; native cross-validation grid",
            "Bounded solver-checked: LayeredMapping laws over SYMBOLIC dict[int,int] layers (<=3 layers, <=2 keys each; written keys in a 4-value range) and symbolic keys/values; Structured _map/_flatten/_simplify/_update/_merge laws over 9 enumerated shapes with symbolic integer leaves; SimpleFormula insert/setitem/delitem sequences of length 2 with symbolic indices and terms from a pool (path tree exhausted per operation pair).",
            "Bounds as stated in evidence (layers/keys, shape menu, 2 operations, index range, pool size); CrossHair short-circuiting of contract-bearing callees is disabled so that every callee body is executed.",
            "DESIGN.md §3 C19"),
    "C01": ("CH", "CrossHair 0.0.110 (z3): symbolic precedences / associativities for the shunting-yard engine (CH-sym, unbounded ints); symbolic indices into finite alphabets realised by explicit branching for formula streams (CH-enum: path tree exhausted = every stream within the bound), each stream parsed by the real parser and compared with an independent recursive-descent reading of grammar.md; native cross-validation; counterexamples replayed natively",
            "Bounded: tokens_to_ast == precedence climbing for ALL integer precedences on 9 operator sequences (+ parentheses); sign-run collapsing on all operator strings of <=3 (5 thorough) characters; every stream of <=3 symbols over the 19-symbol alphabet for the default parser and <=2 for each of the other 15 parser configurations (thorough: <=4 over 16 symbols, 5 over 9 symbols, <=3 for the other configurations) gives accept/reject, nested shape and ordered term lists equal to the documented algebra (documented-silent constructs counted as DONTCARE); documented identities and specification forms over all coincidence patterns of {a,b,c}.",
            "Reference reading of grammar.md is mine (oracle/wilkinson_ref.py), validated at run time against the repository's own FORMULA_TO_TERMS expectations; DONTCARE classes listed there; formulas longer than K tokens are outside the solver-explored claim - a ground companion compares 1 500 (20 000) grammar-derived streams of up to 25 symbols and their single-symbol mutations with the same reference natively (sampling, labelled).",
            "DESIGN.md §3 C01"),
    "C14": ("CH", "CrossHair 0.0.110 (z3): tokenizer over symbolic strings of all of Unicode (CH-sym); streams / single-token edits / feature-flag subsets via symbolic indices realised by branching (CH-enum, path tree exhausted); native cross-validation; counterexamples replayed natively",
            "Bounded: tokenize(s) returns or raises FormulaSyntaxError for every string of <=2 (3) code points; Formula.from_spec over every stream of <=2 symbols of a 31-symbol error alphabet and <=3 of a 16 (20)-symbol cut, and over every single-token replace/insert/delete edit of 10 (20) well-formed seeds, ends in a formula, a FormulaParsingError, or a SyntaxError only if an embedded Python fragment is invalid; flag monotonicity over 3-token streams x 8 flag subsets.",
            "Termination = within the per-path timeout on every explored path; strings outside the bounds are outside the claim. Added: 25 valid Python fragments of unusual AST shape in 9 positions x 6 flag subsets (CH-enum); ground companion: 6 000 (60 000) character-level mutations of grammar-derived formulas must get a verdict within 10 s (sampling, labelled).",
            "DESIGN.md §3 C14"),
    "C15": ("CH", "CrossHair 0.0.110 (z3): whitespace sites, quoted names / fragments and whole input strings are SYMBOLIC strings (CH-sym, all of Unicode); Python-fragment reformattings and single-character names via symbolic indices (CH-enum); native cross-validation; counterexamples replayed natively",
            "Bounded solver-checked: for ~95 (all 676 thorough) ordered token pairs of a 26-symbol alphabet any Unicode whitespace (or none, where an operator/bracket is adjacent) before / between / after yields the canonical token list, and 12 formulas with symbolic whitespace at their boundaries parse identically; back-tick names of <=2 (3) arbitrary code points and brace/call fragments of <=2 (3) code points are single verbatim tokens; every one-character name over a 101-character menu denotes its own factor; token spans of every string of <=2 (3) code points are in range, ordered, non-overlapping and delimit the token text; 10 Python fragments x reformattings denote one factor.",
            "Whitespace runs of length <=1 per site; known findings: columns named '.' and '1' cannot be referenced. Added: string literals of <=2 (3) characters over a 13-character alphabet inside call / brace-quoted fragments are the literal the factor evaluates (CH-enum); ground companion: random whitespace at the token boundaries of 3 000 (20 000) grammar-derived formulas (sampling, labelled).",
            "DESIGN.md §3 C15"),
    "C17": ("CH", "CrossHair 0.0.110 (z3): membership of names in the data / context layers as SYMBOLIC booleans through the real FormulaMaterializer.__init__/_lookup/_evaluate; '.' expansion via symbolic indices (CH-enum); necessity/sufficiency of required_variables by native enumeration over a formula menu (labelled: no solver share)",
            "Bounded: for every membership pattern of three names (one shadowing the built-in 'log') in data and context, lookups and factor evaluation return the value and source of the first of data > context > transforms, NameError otherwise, without writing to the supplied mappings; '.' expands to available - used-on-lhs in data order for 8 variable lists x 6 left-hand sides x intercept x 3 surroundings; 15 formulas (plain, quoted, nested calls, attribute access, Python expressions, multi-part): data restricted to required_variables materializes, removing any one raises FactorEvaluationError, and reported sources / required variables after materialization are where values came from.",
            "The necessity/sufficiency leg is enumeration of concrete formulas, not solver-decided: a 25-formula menu plus 60 (400) generated formulas whose required set is known by construction.",
            "DESIGN.md §3 C17"),
})

NOT_APPLICABLE = {
    "C08": "Kind inference lives inside pandas/narwhals dtype machinery (compiled; dtype lattice): no value reaching it can be symbolic, what remains is enumeration of concrete dtypes, which is another technique (DESIGN.md §3 C08).",
}

NOT_YET = {}

# legs added after seed rounds 10-12 (DESIGN.md §12, second table); ground = native sampling next to the solver-decided core
ADDED_LATE = {
    "C01": "Added: generated formulas with numeric scalings keep the degree ordering (ground).",
    "C04": "Added: spline bounds narrower than the training data under clip / zero.",
    "C05": "Added: the materialized spec as entry point; non-default options of every coding, sparse leg included.",
    "C06": "Added: nulls made by evaluation on complete frames; list-valued factors; RangeIndex with offset / step.",
    "C07": "Added: one stateful call nested in different factor expressions of different parts; parts with zero columns.",
    "C09": "Added: a recorded level absent from follow-up data, per output type (ground).",
    "C10": "Added: multi-term subsets of clustered specs (ground).",
    "C11": "Added: sparse and pandas output for every coding spelling of the pipeline table (ground).",
    "C12": "Added: the recorded knot vector is the one the arguments denote (multiplicities kept); tied training data.",
    "C13": "Added: integer / float32 / bool input vectors for scale and center (ground).",
    "C15": "Added: quote_routes - back-tick names verbatim under the parser without intercept, list / dict specifications, multi-part formulas, inside Python fragments (CH-enum + native grid).",
    "C16": "Added: the same constraint written more than once, string and list form.",
    "C17": "Added: data columns named like Python builtins inside Python code (ground).",
    "C18": "Added: caller-owned lists and contrasts objects in the evaluation context (ground).",
    "C19": "Added: st_simplify_deep - 400 generated nestings of depth <= 4 with symbolic leaves; idempotence also in place.",
    "C20": "Added: ModelSpecs.differentiate as a route for structured formulas (ground).",
}


def main():
    props = [json.loads(l)["id"] for l in open(os.path.join(V, "properties.jsonl"))]
    checks = []
    for pid in props:
        if pid not in CHECKS:
            continue
        engine, technique, text, note, ref = CHECKS[pid]
        if pid in ADDED_LATE:
            note = note + " " + ADDED_LATE[pid]
        checks.append(
            {
                "property_id": pid,
                "quick_cmd": f"bin/check {pid} --tier quick",
                "thorough_cmd": f"bin/check {pid} --tier thorough",
                "evidence_file": f"/verif/evidence/{pid}.json",
                "replay_cmd_template": "bin/check --replay {path}",
                "engine": engine,
                "level_claimed": {"category": "other", "text": text, "design_ref": ref},
                "level_note": note,
                "technique": technique,
            }
        )
    na = []
    for pid in props:
        if pid in CHECKS:
            continue
        reason = NOT_APPLICABLE.get(pid) or NOT_YET.get(pid) or "check not built yet in this round (see DESIGN.md §3 for the planned harness); not claimed."
        na.append({"property_id": pid, "reason": reason})
    m = {
        "version": 1,
        "setup_cmd": "bin/ensure_env.sh",
        "hooks": {
            "guard": "FORMULAIC_VERIF",
            "enable": "none needed: stubs are applied from outside (module-global rebinding, singledispatch.register); /repo is imported from its working tree (editable install)",
            "baseline_off_cmd": "python3 bin/baseline_check.py",
            "source_commits": [],
            "add_only": True,
        },
        "engines": [
            {"name": "SR", "path": "sr/", "serves_properties": [p for p, c in CHECKS.items() if "SR" in c[0]],
             "kind_free_text": "symbolic reals (z3 terms) inside numpy object arrays flowing through the real numpy/pandas/formulaic code; path exploration by decision-prefix replay; z3 QF_NRA/LRA obligations"},
            {"name": "CH", "path": "ch/", "serves_properties": [p for p, c in CHECKS.items() if "CH" in c[0]],
             "kind_free_text": "CrossHair 0.0.110 (z3) symbolic execution of the real parser/container code, one process per obligation, reachability twins"},
        ],
        "checks": checks,
        "not_applicable": na,
        "notes": "All checks: exit 0 = held on everything explored, 1 = VIOLATION (replayed natively first), 3 = harness error / non-reproducing counterexample. known_findings.json lists recorded findings and fixed defects.",
    }
    with open(os.path.join(V, "MANIFEST.json"), "w") as f:
        json.dump(m, f, indent=1)
    print(f"claimed={len(checks)} not_applicable={len(na)}")


if __name__ == "__main__":
    main()
