"""
Independent reading of docsite/docs/guides/grammar.md for space-separated symbol streams.

evaluate(symbols, include_intercept=True, twosided=True, multipart=True, available=None) returns
    REJECT                              the stream is outside the grammar
    DONTCARE                            the documentation is silent about this construct (no obligation)
    {"root": P} / {"lhs": P, "rhs": P}  with P a list of terms or a tuple of such lists ('|' parts);
                                        a term is a sorted tuple of factor strings, ('1',) is the intercept;
                                        each list is in first-appearance order, then stably sorted by degree.

Documented semantics implemented here: precedence  ** ^  >  :  >  * / %in%  >  + - (binary and unary)  >  |  >  ~ ;
left associativity; ordered-set semantics; a*b = a+b+a:b; a/b = a+a:b, (a+b)/c = a+b+a:b:c, a/(b+c) = a+a:b+a:c;
b %in% a = a/b; x**n / x^n = n-fold product; implicit intercept on every right-hand part, none on left-hand sides;
'-1' and '+0' remove the intercept ('0' reads as '-1'); runs of signs collapse by parity; numeric literals other than
0/1 only scale terms ('2:a'); '.' = available variables not used on the left-hand side, in data order.
"""

from __future__ import annotations

REJECT = "REJECT"
DONTCARE = "DONTCARE"

NAMES = {"a", "b", "c", "y"}
LITS = {"0", "1", "2"}
OPCHARS = {"+", "-", "*", "/", ":", "^", "~", "|"}
TABLE = {"+", "-", "*", "/", ":", "**", "^", "~", "|"}


class _Reject(Exception):
    pass


class _DontCare(Exception):
    pass


def lex(symbols):
    """Adjacent operator symbols form one operator token (the tokenizer does not end an operator at whitespace)."""
    out, run = [], ""

    def flush():
        nonlocal run
        if not run:
            return
        s = run
        run = ""
        if s in TABLE:
            out.append(("op", s))
            return
        if "**" in s:
            raise _DontCare("'**' glued to other operator characters")
        # collapse runs of >= 2 signs by parity
        res, i = "", 0
        while i < len(s):
            if s[i] in "+-":
                j = i
                while j < len(s) and s[j] in "+-":
                    j += 1
                seg = s[i:j]
                res += (("-" if seg.count("-") % 2 else "+") if len(seg) >= 2 else seg)
                i = j
            else:
                res += s[i]
                i += 1
        if res in TABLE:
            out.append(("op", res))
            return
        for ch in res:
            out.append(("op", ch))

    for sym in symbols:
        if sym in OPCHARS or sym == "**":
            run += sym
        else:
            if sym == "0" and len(run) > 1 and run[-1] in "+-" and any(ch not in "+-" for ch in run):
                raise _DontCare("'0' (rewritten to '-1') after a sign glued to another operator")
            flush()
            if sym == "%in%":
                out.append(("op", "%in%"))
            elif sym in ("(", ")"):
                out.append(("par", sym))
            elif sym == ".":
                out.append(("dot", "."))
            elif sym in LITS:
                out.append(("lit", sym))
            elif sym in NAMES:
                out.append(("name", sym))
            else:
                raise _DontCare(f"symbol {sym!r} outside the oracle's alphabet")
    flush()
    return out


def _term(*factors):
    return tuple(dict.fromkeys(factors))


ICPT = ("1",)


def _key(t):
    return tuple(sorted(t))


class OSet:
    def __init__(self, terms=()):
        self.d = {}
        for t in terms:
            self.d.setdefault(_key(t), t)

    def __iter__(self):
        return iter(self.d.values())

    def __len__(self):
        return len(self.d)

    def union(self, o):
        return OSet(list(self) + list(o))

    def minus(self, o):
        ks = {_key(t) for t in o}
        return OSet([t for t in self if _key(t) not in ks])

    def has_icpt(self):
        return _key(ICPT) in self.d


def _prod(l, r):
    return OSet([_term(*x, *y) for x in l for y in r])


class _P:
    def __init__(self, toks, dot_terms, lhs):
        self.t, self.i, self.dot_terms, self.lhs = toks, 0, dot_terms, lhs

    def peek(self):
        return self.t[self.i] if self.i < len(self.t) else None

    def take(self):
        tok = self.t[self.i]
        self.i += 1
        return tok

    # ---- additive level
    def additive(self, implicit_intercept):
        S = OSet([ICPT]) if implicit_intercept else OSet()
        first = True
        while True:
            tok = self.peek()
            sign = None
            if tok is not None and tok[0] == "op" and tok[1] in "+-":
                sign = self.take()[1]
            elif not first:
                if tok is None or tok == ("par", ")") or (tok[0] == "op" and tok[1] in "~|"):
                    break
                raise _Reject("missing operator")
            tok = self.peek()
            if tok is None or tok == ("par", ")") or (tok[0] == "op" and tok[1] in "~|"):
                if sign is not None or first and not implicit_intercept and False:
                    raise _Reject("dangling sign")
                break
            if tok[0] == "op" and tok[1] in "+-":
                raise _DontCare("separate consecutive sign tokens")
            binary = (not first) or implicit_intercept
            kind, val = self.mult()
            if kind == "lit":
                if val == "2":
                    # a bare numeric literal is only rejected if it survives into the final term set (see _finish)
                    if sign == "-" and not binary:
                        raise _DontCare("unary minus of something other than 0/1")
                    X = OSet([_term("2")])
                    if binary:
                        S = S.union(X) if (sign or "+") == "+" else S.minus(X)
                    else:
                        S = X
                    first = False
                    continue
                eff = sign or "+"
                if val == "0":  # '0' reads as '-1'
                    eff = "-" if eff == "+" else "+"
                X = OSet([ICPT])
                if binary:
                    S = S.union(X) if eff == "+" else S.minus(X)
                else:
                    S = X if eff == "+" else OSet()
            else:
                X = val
                if binary:
                    S = S.union(X) if (sign or "+") == "+" else S.minus(X)
                else:
                    if sign == "-":
                        raise _DontCare("unary minus of something other than 0/1")
                    S = X
            first = False
        return S

    # ---- * / %in%
    def mult(self):
        kind, val = self.inter()
        while True:
            tok = self.peek()
            if tok is None or tok[0] != "op" or tok[1] not in ("*", "/", "%in%"):
                return kind, val
            op = self.take()[1]
            self._no_sign_after(op)
            k2, v2 = self.inter()
            L, R = self._operand(kind, val, op), self._operand(k2, v2, op)
            if op == "*":
                val = L.union(R).union(_prod(L, R))
            else:
                parents, nested = (L, R) if op == "/" else (R, L)
                common = ()
                for t in parents:
                    common = _term(*common, *t)
                val = parents.union(OSet([_term(*common, *t) for t in nested]))
            kind = "set"

    def _operand(self, kind, val, op):
        if kind == "lit":
            raise _DontCare(f"literal {val} as an operand of {op}")
        if len(val) == 0:
            raise _DontCare(f"empty term set as an operand of {op}")
        if val.has_icpt():
            raise _DontCare(f"intercept inside an operand of {op}")
        return val

    def _no_sign_after(self, op):
        tok = self.peek()
        if tok is None:
            raise _Reject(f"operator {op} lacks its right operand")
        if tok[0] == "op" and tok[1] in "+-":
            raise _DontCare("sign directly after a tighter-binding operator")

    # ---- :
    def inter(self):
        kind, val = self.power()
        while True:
            tok = self.peek()
            if tok is None or tok != ("op", ":"):
                return kind, val
            self.take()
            self._no_sign_after(":")
            k2, v2 = self.power()
            sides = []
            for k, v in ((kind, val), (k2, v2)):
                if k == "lit":
                    if v != "2":
                        raise _DontCare(f"literal {v} as an operand of ':'")
                    sides.append(OSet([_term("2")]))
                else:
                    if len(v) == 0:
                        raise _DontCare("empty term set as an operand of ':'")
                    if v.has_icpt():
                        raise _DontCare("intercept inside an operand of ':'")
                    sides.append(v)
            if kind == "lit" and k2 == "lit":
                raise _DontCare("product of two literals")
            kind, val = "set", _prod(sides[0], sides[1])

    # ---- ** ^
    def power(self):
        kind, val = self.atom()
        tok = self.peek()
        if tok is None or tok[0] != "op" or tok[1] not in ("**", "^"):
            return kind, val
        self.take()
        self._no_sign_after("**")
        e = self.peek()
        if e is None:
            raise _Reject("'**' lacks its exponent")
        if e[0] == "name":
            self.take()
            raise _Reject("the right operand of '**' must be a positive integer")
        if e[0] != "lit":
            raise _DontCare("exponent that is not a bare literal")
        self.take()
        nxt = self.peek()
        if nxt is not None and nxt[0] == "op" and nxt[1] in ("**", "^"):
            raise _DontCare("chained '**'")
        if kind == "lit":
            raise _DontCare("literal base of '**'")
        if e[1] == "0":
            raise _DontCare("exponent 0 ('0' is rewritten)")
        base = self._operand(kind, val, "**")
        out = base
        for _ in range(int(e[1]) - 1):
            out = out.union(base).union(_prod(out, base))
        return "set", out

    def atom(self):
        tok = self.peek()
        if tok is None:
            raise _Reject("operand expected")
        if tok[0] == "name":
            self.take()
            return "set", OSet([_term(tok[1])])
        if tok[0] == "lit":
            self.take()
            return "lit", tok[1]
        if tok[0] == "dot":
            self.take()
            if self.lhs:
                raise _DontCare("'.' on a left-hand side")
            if self.dot_terms is None:
                raise _DontCare("'.' without a list of available variables")
            return "set", OSet([_term(v) for v in self.dot_terms])
        if tok == ("par", "("):
            self.take()
            if self.peek() == ("par", ")"):
                raise _Reject("empty parentheses")
            inner = self.additive(False)
            nxt = self.peek()
            if nxt is not None and nxt[0] == "op" and nxt[1] in "~|":
                raise _DontCare("'~' or '|' inside parentheses")
            if nxt != ("par", ")"):
                raise _Reject("unbalanced parentheses")
            self.take()
            return "set", inner
        if tok == ("par", ")"):
            raise _Reject("unbalanced parentheses")
        raise _Reject(f"operand expected, found operator {tok[1]}")


def _finish(S):
    terms = list(S)
    # literal checks (documented: numeric literals only scale other terms; one scaling per term)
    seen = {}
    for t in terms:
        nonlit = tuple(sorted(f for f in t if f not in LITS))
        lits = tuple(sorted(f for f in t if f in LITS))
        if not nonlit and t != ICPT:
            raise _Reject("a numeric literal other than 1 standing alone")
        if nonlit in seen and seen[nonlit] != lits:
            raise _Reject("term seen with two different scalings")
        seen.setdefault(nonlit, lits)
    deg = lambda t: len([f for f in t if f not in LITS])
    return [_key(t) for t in sorted(terms, key=deg)]


def _split(toks, sym):
    parts, depth, cur = [], 0, []
    for tok in toks:
        if tok == ("par", "("):
            depth += 1
        elif tok == ("par", ")"):
            depth -= 1
        if depth == 0 and tok == ("op", sym):
            parts.append(cur)
            cur = []
        else:
            cur.append(tok)
    parts.append(cur)
    return parts


def _side(toks, implicit_intercept, dot_terms, lhs, multipart):
    parts = _split(toks, "|")
    if len(parts) > 1:
        if not multipart:
            raise _Reject("'|' is disabled")
        if any(not p for p in parts):
            raise _DontCare("empty part next to '|'")
    outs = []
    for p in parts:
        ps = _P(p, dot_terms, lhs)
        S = ps.additive(implicit_intercept)
        if ps.i != len(p):
            tok = ps.peek()
            if tok == ("par", ")"):
                raise _Reject("unbalanced parentheses")
            raise _Reject("trailing tokens")
        outs.append(_finish(S))
    return outs[0] if len(outs) == 1 else tuple(outs)


def evaluate(symbols, include_intercept=True, twosided=True, multipart=True, available=None):
    try:
        toks = lex(symbols)
        depth = 0
        for tok in toks:
            if tok == ("par", "("):
                depth += 1
            elif tok == ("par", ")"):
                depth -= 1
                if depth < 0:
                    raise _Reject("unbalanced parentheses")
        if depth != 0:
            raise _Reject("unbalanced parentheses")
        sides = _split(toks, "~")
        if len(sides) > 2:
            raise _Reject("more than one '~'")
        if len(sides) == 1:
            return {"root": _side(sides[0], include_intercept, available, False, multipart)}
        lhs_t, rhs_t = sides
        if not rhs_t and not include_intercept:
            raise _DontCare("empty right-hand side without an implicit intercept")
        if not lhs_t:  # unary '~'
            return {"root": _side(rhs_t, include_intercept, available, False, multipart)}
        if not twosided:
            raise _Reject("two-sided formulas are disabled")
        used = {tok[1] for tok in lhs_t if tok[0] == "name"}
        dot = None if available is None else [v for v in available if v not in used]
        lhs = _side(lhs_t, False, None, True, multipart)
        rhs = _side(rhs_t, include_intercept, dot, False, multipart)
        return {"lhs": lhs, "rhs": rhs}
    except _Reject:
        return REJECT
    except _DontCare:
        return DONTCARE
