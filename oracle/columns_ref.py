"""
Independent reading of model-matrix column labels (arithmetic-agnostic: cells may be floats or z3 terms).

A label is 'Intercept' or pieces joined by ':'; a piece is  name  |  name[level]  |  name[T.level].
Each piece denotes a vector: the numeric factor's values, or the indicator of `level` for a categorical factor.
The column is the literal scale of its term times the element-wise product of its pieces.
"""

from __future__ import annotations

import re
from typing import Any, Callable, Optional

PIECE = re.compile(r"^(?P<name>.*?)(?:\[(?P<t>T\.)?(?P<level>[^\[\]]*)\])?$")


def split_label(label: str) -> list[str]:
    """Split on ':' outside brackets / parentheses / braces / backticks."""
    out, depth, cur, tick = [], 0, "", False
    for ch in label:
        if ch == "`":
            tick = not tick
        if not tick:
            if ch in "([{":
                depth += 1
            elif ch in ")]}":
                depth -= 1
        if ch == ":" and depth == 0 and not tick:
            out.append(cur)
            cur = ""
        else:
            cur += ch
    out.append(cur)
    return out


class World:
    """
    numeric:      name -> list of cells
    categorical:  name -> (levels in encoding order, list of per-row level labels (None = null))
    `one` / `zero`: the arithmetic's 1 and 0.
    """

    def __init__(self, nrows: int, numeric: dict[str, list], categorical: dict[str, tuple[list, list]], one: Any = 1.0, zero: Any = 0.0, coded: Optional[dict] = None):
        self.nrows, self.numeric, self.categorical, self.one, self.zero = nrows, numeric, categorical, one, zero
        # contrast-coded factors: name -> {column suffix (e.g. 'S.x'): {level: coding value}} (closed-form codings, oracle/contrasts_ref.py)
        self.coded = coded or {}

    def piece(self, piece: str) -> list:
        if piece in self.numeric:
            return list(self.numeric[piece])
        m = PIECE.match(piece)
        if not m or m.group("level") is None:
            raise KeyError(f"cannot interpret label piece {piece!r}")
        name, level = m.group("name"), m.group("level")
        suffix = (m.group("t") or "") + level
        if name in self.coded and suffix in self.coded[name]:
            table = self.coded[name][suffix]
            _, rows = self.categorical[name]
            return [(self.one * table[str(r)]) if r is not None else self.zero for r in rows]
        if name in self.categorical:
            levels, rows = self.categorical[name]
            if level not in [str(l) for l in levels]:
                raise KeyError(f"label piece {piece!r}: {level!r} is not a level of {name}")
            return [self.one if (r is not None and str(r) == level) else self.zero for r in rows]
        raise KeyError(f"cannot interpret label piece {piece!r}")

    def piece_name(self, piece: str) -> str:
        if piece in self.numeric:
            return piece
        m = PIECE.match(piece)
        return m.group("name") if m else piece

    def column(self, label: str, scale: Any = None) -> list:
        if label == "Intercept":
            col = [self.one] * self.nrows
        else:
            col = None
            for p in split_label(label):
                v = self.piece(p)
                col = v if col is None else [x * y for x, y in zip(col, v)]
        if scale is not None:
            col = [scale * x for x in col]
        return col

    def full_labels(self, factor_names: list[str]) -> list[str]:
        """Labels of the complete row-wise Kronecker product of the factors' full encodings, first factor fastest."""
        encs = []
        for f in factor_names:
            if f in self.numeric:
                encs.append([f])
            else:
                levels, _ = self.categorical[f]
                encs.append([f"{f}[{l}]" for l in levels])
        if not encs:
            return ["Intercept"]
        labels = [[]]
        # first factor fastest == last factor is the outermost loop
        import itertools

        out = []
        for combo in itertools.product(*reversed(encs)):
            out.append(":".join(reversed(combo)))
        return out
