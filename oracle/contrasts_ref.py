"""Closed-form textbook / R definitions of the built-in contrast codings, in exact rationals (poly: floats via QR)."""
from __future__ import annotations

from fractions import Fraction

import numpy


def treatment(n, base=0):
    return [[Fraction(1 if (r == c) else 0) for c in range(n) if c != base] for r in range(n)]


def sas(n, base=None):
    return treatment(n, n - 1 if base is None else base)


def sum_(n):
    return [[Fraction(-1) if r == n - 1 else Fraction(1 if r == c else 0) for c in range(n - 1)] for r in range(n)]


def helmert(n, reverse=True, scale=False):
    m = [[Fraction(0)] * (n - 1) for _ in range(n)]
    for c in range(n - 1):
        if reverse:  # R's contr.helmert: level c+1 against the mean of the previous ones
            for r in range(c + 1):
                m[r][c] = Fraction(-1)
            m[c + 1][c] = Fraction(c + 1)
            div = c + 2
        else:  # level c against the mean of the following ones
            m[c][c] = Fraction(n - c - 1)
            for r in range(c + 1, n):
                m[r][c] = Fraction(-1)
            div = n - c
        if scale:
            for r in range(n):
                m[r][c] /= div
    return m


def diff(n, backward=True):
    # MASS::contr.sdif: column c (1-based) is -(n-c)/n for rows <= c and c/n for rows > c
    m = [[(Fraction(c + 1, n) - 1) if r <= c else Fraction(c + 1, n) for c in range(n - 1)] for r in range(n)]
    if not backward:
        m = [[-v for v in row] for row in m]
    return m


def poly(n, scores=None):
    """Orthonormal polynomial contrasts (R's contr.poly): QR of the centred Vandermonde matrix, positive leading coefficients."""
    x = numpy.arange(n, dtype=float) if scores is None else numpy.asarray(scores, dtype=float)
    V = numpy.vander(x - x.mean(), n, increasing=True)
    Q, Rm = numpy.linalg.qr(V)
    Q = Q * numpy.sign(numpy.diag(Rm))
    return Q[:, 1:]


def as_float(m):
    return numpy.array([[float(v) for v in row] for row in m], dtype=float).reshape((len(m), -1))
