"""
Independent reference for cubic regression splines: the cardinal basis of the natural / periodic interpolating
cubic spline through given knots, solved in exact rational arithmetic (Fractions) from the textbook conditions
(C2 continuity, natural: s''=0 at both ends; periodic: s, s', s'' match at the ends), evaluated as z3 terms.
"""
from fractions import Fraction

import z3


def _q(v):
    f = Fraction(v)
    return z3.RealVal(f"{f.numerator}/{f.denominator}")


def _solve(A, b):
    """Gauss-Jordan over Fractions. A: n x n, b: n x k -> n x k."""
    n = len(A)
    M = [list(map(Fraction, A[i])) + list(map(Fraction, b[i])) for i in range(n)]
    for c in range(n):
        p = next(r for r in range(c, n) if M[r][c] != 0)
        M[c], M[p] = M[p], M[c]
        pv = M[c][c]
        M[c] = [v / pv for v in M[c]]
        for r in range(n):
            if r != c and M[r][c] != 0:
                f = M[r][c]
                M[r] = [a - f * bb for a, bb in zip(M[r], M[c])]
    return [row[n:] for row in M]


def second_derivatives(knots, cyclic):
    """Returns (M, nb): M[i][j] = second derivative at knot i of cardinal function j; nb = number of basis functions."""
    t = [Fraction(k) for k in knots]
    n = len(t)
    h = [t[i + 1] - t[i] for i in range(n - 1)]
    if not cyclic:
        nb = n
        # unknowns M_1..M_{n-2}; M_0 = M_{n-1} = 0
        if n == 2:
            return [[Fraction(0)] * nb for _ in range(n)], nb
        A = [[Fraction(0)] * (n - 2) for _ in range(n - 2)]
        rhs = [[Fraction(0)] * nb for _ in range(n - 2)]
        for r, i in enumerate(range(1, n - 1)):
            if r > 0:
                A[r][r - 1] = h[i - 1] / 6
            A[r][r] = (h[i - 1] + h[i]) / 3
            if r < n - 3:
                A[r][r + 1] = h[i] / 6
            # (y_{i+1}-y_i)/h_i - (y_i-y_{i-1})/h_{i-1}
            rhs[r][i + 1] += 1 / h[i]
            rhs[r][i] -= 1 / h[i] + 1 / h[i - 1]
            rhs[r][i - 1] += 1 / h[i - 1]
        inner = _solve(A, rhs)
        return [[Fraction(0)] * nb] + inner + [[Fraction(0)] * nb], nb
    nb = n - 1  # y_{n-1} = y_0, M_{n-1} = M_0
    A = [[Fraction(0)] * nb for _ in range(nb)]
    rhs = [[Fraction(0)] * nb for _ in range(nb)]
    for i in range(nb):
        hm = h[(i - 1) % nb]
        hp = h[i]
        A[i][(i - 1) % nb] += hm / 6
        A[i][i] += (hm + hp) / 3
        A[i][(i + 1) % nb] += hp / 6
        rhs[i][(i + 1) % nb] += 1 / hp
        rhs[i][i] -= 1 / hp + 1 / hm
        rhs[i][(i - 1) % nb] += 1 / hm
    Mi = _solve(A, rhs)
    return Mi + [Mi[0]], nb


def cardinal_basis_piece(x, knots, cyclic, piece):
    """
    z3 terms of all cardinal functions on knot interval `piece` (0..n-2); for the natural spline piece=-1 / n-1 give
    the linear continuation below / above the boundary knots.
    """
    t = [Fraction(k) for k in knots]
    n = len(t)
    M, nb = second_derivatives(knots, cyclic)
    h = [t[i + 1] - t[i] for i in range(n - 1)]

    def y(i, j):
        if cyclic:
            return Fraction(1 if (i % nb) == j else 0)
        return Fraction(1 if i == j else 0)

    out = []
    for j in range(nb):
        if piece in (-1, n - 1):
            assert not cyclic
            if piece == -1:
                # slope at t_0: (y1-y0)/h0 - h0/6*(2*M0 + M1)
                slope = (y(1, j) - y(0, j)) / h[0] - h[0] / 6 * (2 * M[0][j] + M[1][j])
                out.append(_q(y(0, j)) + _q(slope) * (x - _q(t[0])))
            else:
                slope = (y(n - 1, j) - y(n - 2, j)) / h[-1] + h[-1] / 6 * (M[n - 2][j] + 2 * M[n - 1][j])
                out.append(_q(y(n - 1, j)) + _q(slope) * (x - _q(t[-1])))
            continue
        i = piece
        a = _q(t[i + 1]) - x
        b = x - _q(t[i])
        hi = h[i]
        out.append(
            _q(M[i][j] / (6 * hi)) * a * a * a
            + _q(M[i + 1][j] / (6 * hi)) * b * b * b
            + _q(y(i, j) / hi - M[i][j] * hi / 6) * a
            + _q(y(i + 1, j) / hi - M[i + 1][j] * hi / 6) * b
        )
    return out
