"""
Independent reference for B-spline bases: textbook Cox-de Boor recursion over z3 real terms.

B_{i,0}(x) = 1 on [t_i, t_{i+1})  (the last non-empty interval is closed on the right), 0 elsewhere
B_{i,d}(x) = (x - t_i)/(t_{i+d} - t_i) * B_{i,d-1}(x) + (t_{i+d+1} - x)/(t_{i+d+1} - t_{i+1}) * B_{i+1,d-1}(x)
with the convention 0/0 := 0.

`extend=True` continues the first / last non-empty knot interval to -inf / +inf (polynomial continuation of the
boundary pieces, R's behaviour outside the boundary knots).
"""
from fractions import Fraction

import z3


def _q(v):
    f = Fraction(v)
    return z3.RealVal(f"{f.numerator}/{f.denominator}")


def bspline_basis(x, knots, degree, extend=False):
    """x: z3 real term; knots: full padded knot vector (floats). Returns the list of len(knots)-degree-1 z3 terms."""
    t = [Fraction(k) for k in knots]
    m = len(t)
    nonempty = [i for i in range(m - 1) if t[i] < t[i + 1]]
    first, last = (nonempty[0], nonempty[-1]) if nonempty else (None, None)
    B = []
    for i in range(m - 1):
        if t[i] == t[i + 1]:
            B.append(z3.RealVal(0))
            continue
        lo = x >= _q(t[i])
        hi = (x <= _q(t[i + 1])) if i == last else (x < _q(t[i + 1]))
        if extend and i == first:
            lo = z3.BoolVal(True)
        if extend and i == last:
            hi = z3.BoolVal(True)
        B.append(z3.If(z3.And(lo, hi), z3.RealVal(1), z3.RealVal(0)))
    for d in range(1, degree + 1):
        nxt = []
        for i in range(m - d - 1):
            term = z3.RealVal(0)
            if t[i + d] != t[i]:
                term = term + (x - _q(t[i])) / _q(t[i + d] - t[i]) * B[i]
            if t[i + d + 1] != t[i + 1]:
                term = term + (_q(t[i + d + 1]) - x) / _q(t[i + d + 1] - t[i + 1]) * B[i + 1]
            nxt.append(term)
        B = nxt
    return B
