"""C12 — B-splines and natural / cyclic cubic regression splines against independent references (Engine SR)."""

from __future__ import annotations

import itertools
import math
from fractions import Fraction

import numpy
import z3

import formulaic.transforms  # noqa: F401
from formulaic.transforms import TRANSFORMS
from lib.common import Check
from oracle.bspline_ref import bspline_basis
from oracle.crs_ref import cardinal_basis_piece
from sr import rig
from sr.symreal import SReal, floor_term, lift, model_value, sym_vector, as_sym_array

from . import replays

EPS = z3.RealVal("1/1000000000")


def _q(v):
    f = Fraction(v)
    return z3.RealVal(f"{f.numerator}/{f.denominator}")


def _is_nan(v):
    return isinstance(v, (float, numpy.floating)) and math.isnan(v)


def _near(a, b):
    d = a - b
    return z3.And(d <= EPS, d >= -EPS)


# ---------------------------------------------------------------------------------------------- B-splines


def _bs_case(check: Check, bs, degree, inner, lb, ub, ii, mode, tmo, state=None, label=""):
    cfg = {"degree": degree, "knots": inner, "lower_bound": lb, "upper_bound": ub, "include_intercept": ii,
           "extrapolation": mode, "state": state}

    def fn():
        x = sym_vector("x", 1)
        st = dict(state) if state is not None else {}
        if state is not None:
            out = bs(x, degree=degree, include_intercept=ii, extrapolation=mode, _state=st)
        else:
            out = bs(x, knots=inner, degree=degree, include_intercept=ii, lower_bound=lb, upper_bound=ub,
                     extrapolation=mode, _state=st)
        return out, st

    X = z3.Real("x0")

    def claims(res):
        out, st = res
        knots = st["knots"]
        lo, hi = _q(st["lower_bound"]), _q(st["upper_bound"])
        inside = z3.And(X >= lo, X <= hi)
        ncols = len(knots) - degree - 1
        want_keys = [i for i in range(ncols) if i > 0 or ii]
        if state is None:  # the knot vector the ARGUMENTS denote: boundary knots (degree + 1)-fold, inner knots with the multiplicity written
            denoted = [float(lb)] * (degree + 1) + sorted(float(k) for k in inner) + [float(ub)] * (degree + 1)
            shape_ok = [float(k) for k in knots] == denoted
            yield "recorded knot vector is the one the arguments denote (multiplicities kept)", shape_ok
            if not shape_ok:
                return
        yield "column keys", list(out.keys()) == want_keys
        if state is not None:
            yield "state untouched", st == state
        if mode == "raise":
            yield "raise: returned only inside the bounds", inside
        ref_in = bspline_basis(X, knots, degree, extend=False)
        yield "reference: partition of unity inside", z3.Implies(inside, sum(ref_in) == 1)
        cells = {i: out[i][0] for i in want_keys}
        if mode == "na" and cells:  # (degree 0 without knots and without intercept has no column to look at)
            outside_ok = all(_is_nan(v) for v in cells.values())
            anynan = any(_is_nan(v) for v in cells.values())
            yield "na: NaN exactly outside the bounds", (z3.Not(inside) if anynan else inside) if (outside_ok or not anynan) else False
            if anynan:
                return
        vals = {i: lift(v) for i, v in cells.items()}
        for i in want_keys:
            yield f"col {i} equals Cox-de Boor inside", z3.Implies(inside, vals[i] == ref_in[i])
            yield f"col {i} >= 0 inside", z3.Implies(inside, vals[i] >= 0)
        if ii:
            yield "sums to one inside (with intercept)", z3.Implies(inside, sum(vals.values()) == 1)
        if mode == "zero":
            for i in want_keys:
                yield f"zero: col {i} == 0 outside", z3.Implies(z3.Not(inside), vals[i] == 0)
        if mode == "clip":
            xc = z3.If(X < lo, lo, z3.If(X > hi, hi, X))
            ref_c = bspline_basis(xc, knots, degree, extend=False)
            for i in want_keys:
                yield f"clip: col {i} == value at clipped x", vals[i] == ref_c[i]
        if mode == "extend":
            ref_e = bspline_basis(X, knots, degree, extend=True)
            for i in want_keys:
                yield f"extend: col {i} == polynomial continuation", vals[i] == ref_e[i]

    def on_exc(e, pc):
        if mode == "raise" and isinstance(e, ValueError) and "extend beyond" in str(e):
            lo, hi = _q(lb if state is None else state["lower_bound"]), _q(ub if state is None else state["upper_bound"])
            return [("raise: raised only outside the bounds", z3.Or(X < lo, X > hi))]
        raise e

    def rep(model, lab):
        p = {"kind": "c12_bs", "cfg": cfg, "x": model_value(model, X)}
        bad = replays.run(p)
        return (f"bs(degree={degree},extrapolation={mode}{',knot-at-bound' if label == 'knot-at-bound' else ''})", bad, p) if bad else None

    def on_exception(e, pc):
        try:
            return on_exc(e, pc)
        except Exception as e2:
            check.harness_error(f"bs case {cfg}: unexpected {type(e2).__name__}: {e2}")
            return []

    rig.run_sym(check, "bs", fn, claims, on_exception=on_exception, replay=rep, logic="QF_NRA", timeout_ms=tmo,
                case_id=f"bs {degree} {inner} [{lb},{ub}] ii={ii} {mode} {label}",
                sample={"transform": "bs", **{k: v for k, v in cfg.items() if k != "state"}, "x": "symbolic real"})


def _run_bs(check: Check, thorough: bool, tmo: int):
    bs = TRANSFORMS["bs"]
    degrees = range(0, 6) if thorough else range(0, 4)
    menus = [[], [2.0], [1.0, 3.0], [2.0, 2.0], [0.5, 2.5, 3.75]]
    if thorough:
        menus += [[1.0, 2.0, 3.0], [1.0, 1.0, 3.0], [1.0, 1.0, 1.0, 3.5]]
    modes = ["raise", "clip", "na", "zero", "extend"]
    for degree, inner, ii, mode in itertools.product(degrees, menus, (True, False), modes):
        if not thorough:
            # quick: every degree x menu x mode once, intercept alternating
            if ii != ((degree + len(inner)) % 2 == 0):
                continue
        _bs_case(check, bs, degree, inner, 0.0, 4.0, ii, mode, tmo)
    # inner knot equal to a bound: inside the bounds only (the continuation piece is ambiguous there)
    for degree, inner in itertools.product((1, 3), ([0.0, 2.0], [2.0, 4.0])):
        for mode in ("raise", "clip", "zero"):
            _bs_case(check, bs, degree, inner, 0.0, 4.0, True, mode, tmo, label="knot-at-bound")
    # df-derived knots from concrete training vectors with ties, then symbolic x against the recorded state
    trains = [[0.0, 1.0, 1.0, 2.0, 5.0, 7.0, 7.0, 9.0], [3.0, -1.0, 0.5, 0.5, 0.5, 2.0, 8.0], [0.0, 1.0, 2.0, 2.0, 2.0, 2.0, 2.0, 2.0, 2.0, 2.0, 5.0, 9.0]]  # the last: heavy ties, inner quantile knots coincide (not with a bound)
    for train, degree, extra, ii in itertools.product(trains, (1, 3) if not thorough else (0, 1, 2, 3), (0, 2), (True, False)):
        df = degree + extra + (1 if ii else 0)
        if df == 0:
            continue
        st: dict = {}
        out = bs(numpy.array(train), df=df, degree=degree, include_intercept=ii, _state=st)
        check.obligation("bs.df/ground", "ground" if len(out) == df else "refuted")
        if len(out) != df:
            p = {"kind": "c12_bs_df", "train": train, "df": df, "degree": degree, "ii": ii}
            check.violation(f"bs_df(df={df},degree={degree},ii={ii})", f"bs(df={df}) produced {len(out)} columns", p)
        for mode in (("extend", "clip") if not thorough else ("raise", "clip", "na", "zero", "extend")):
            _bs_case(check, bs, degree, None, None, None, ii, mode, tmo, state=st, label=f"df={df} train={train}")
        # nulls in the training vector: the recorded state is that of the non-null values, null rows come out null, other rows unchanged
        tn = train[:3] + [float("nan")] + train[3:]
        st2: dict = {}
        out2 = bs(numpy.array(tn), df=df, degree=degree, include_intercept=ii, _state=st2)
        same_state = set(st2) == set(st) and all(numpy.allclose(numpy.asarray(st2[k], dtype=float), numpy.asarray(st[k], dtype=float)) if isinstance(st[k], (list, numpy.ndarray)) else st2[k] == st[k] for k in st)
        rows_ok = set(out2) == set(out) and all(
            numpy.isnan(out2[k][3]) and numpy.allclose(numpy.delete(numpy.asarray(out2[k], dtype=float), 3), numpy.asarray(out[k], dtype=float)) for k in out)
        check.obligation("bs.nulls/ground", "ground" if (same_state and rows_ok) else "refuted")
        if not (same_state and rows_ok):
            p = {"kind": "c12_bs_nulls", "train": train, "df": df, "degree": degree, "ii": ii}
            check.violation(f"bs_nulls(degree={degree},ii={ii})::{'state-differs' if not same_state else 'rows-differ'}",
                            f"bs(df={df}, degree={degree}) on a training vector holding one NaN: " + ("recorded state differs from that of the non-null values" if not same_state else "null row not null or other rows changed"), p)


# ---------------------------------------------------------------------------------------------- cubic regression splines


def _crs_case(check: Check, fnc, cyclic, knots_all, mode, tmo):
    lb, ub = knots_all[0], knots_all[-1]
    inner = knots_all[1:-1]
    period = ub - lb
    cfg = {"cyclic": cyclic, "knots": knots_all, "extrapolation": mode}
    X = z3.Real("x0")
    pre = [X >= _q(lb - 2 * period), X <= _q(ub + 2 * period)] if cyclic else [X >= _q(lb - 100), X <= _q(ub + 100)]

    def fn():
        x = sym_vector("x", 1)
        st: dict = {}
        out = fnc(x, knots=inner, lower_bound=lb, upper_bound=ub, extrapolation=mode, _state=st)
        return out, st

    n = len(knots_all)
    nb = n - 1 if cyclic else n
    lo, hi = _q(lb), _q(ub)

    def claims(res):
        out, st = res
        yield "knots recorded", st["knots"] == list(knots_all)
        yield "column keys", list(out.keys()) == list(range(1, nb + 1))
        cells = [out[i + 1][0] for i in range(nb)]
        inside = z3.And(X >= lo, X <= hi)
        if mode == "raise":
            yield "raise: returned only inside", inside
        if mode == "na" and any(_is_nan(v) for v in cells):
            yield "na: NaN only outside", z3.Not(inside) if all(_is_nan(v) for v in cells) else False
            return
        vals = [lift(v) for v in cells]
        if mode == "zero":
            for j in range(nb):
                yield f"zero: col {j+1} == 0 outside", z3.Implies(z3.Not(inside), vals[j] == 0)
        # Evaluation point after the documented treatment of out-of-range values.  For the cyclic spline the
        # period shift k is split into separate obligations (x_e = x - k*P is then linear in x).
        shifts = range(-3, 4) if cyclic else [0]
        P = _q(period)
        pieces = list(range(n - 1)) + ([] if cyclic else [-1, n - 1])
        for k in shifts:
            if cyclic:
                kreg = z3.And(X - lo >= P * k, X - lo < P * (k + 1))
                xe = X - P * k
                if mode == "clip":
                    # clipping happens before the cyclic map: outside values sit on a boundary knot
                    kreg = z3.And(kreg, inside) if k == 0 else None
            else:
                kreg, xe = z3.BoolVal(True), X
            if kreg is None:
                continue
            for pc_i in pieces:
                if pc_i == -1:
                    region = xe < lo
                elif pc_i == n - 1:
                    region = xe > hi
                else:
                    region = z3.And(xe >= _q(knots_all[pc_i]), xe <= _q(knots_all[pc_i + 1]))
                region = z3.And(kreg, region)
                if mode in ("zero", "raise", "na"):
                    region = z3.And(region, inside)
                if mode == "clip" and not cyclic and pc_i in (-1, n - 1):
                    continue
                ref = cardinal_basis_piece(xe, knots_all, cyclic, pc_i)
                yield f"equals the cardinal interpolating-spline basis on piece {pc_i} shift {k} (1e-9)", z3.Implies(
                    region, z3.And(*[_near(vals[j], ref[j]) for j in range(nb)]))
        if mode == "clip":
            for bound, kn_i in ((X < lo, 0), (X > hi, n - 1)):
                ref = cardinal_basis_piece(lo if kn_i == 0 else hi, knots_all, cyclic, 0 if kn_i == 0 else n - 2)
                yield "clip: value at the boundary knot", z3.Implies(bound, z3.And(*[_near(vals[j], ref[j]) for j in range(nb)]))
        yield "sums to one", z3.Implies(inside if mode in ("zero", "raise", "na") else z3.BoolVal(True), _near(sum(vals), z3.RealVal(1)))

    def on_exception(e, pc):
        if mode == "raise" and isinstance(e, ValueError) and "extend beyond" in str(e):
            return [("raise: raised only outside", z3.Or(X < lo, X > hi))]
        check.harness_error(f"crs case {cfg}: unexpected {type(e).__name__}: {e}")
        return []

    def rep(model, lab):
        p = {"kind": "c12_crs", "cfg": cfg, "x": model_value(model, X)}
        bad = replays.run(p)
        return (f"{'cc' if cyclic else 'cr'}(nknots={len(knots_all)},extrapolation={mode})", bad, p) if bad else None

    rig.run_sym(check, "cc" if cyclic else "cr", fn, claims, pre=pre, on_exception=on_exception, replay=rep,
                logic="QF_NRA", timeout_ms=tmo, case_id=f"crs cyclic={cyclic} {knots_all} {mode}",
                sample={"transform": "cc" if cyclic else "cr", **cfg, "x": "symbolic real"})


def _crs_knot_identity(check: Check, fnc, cyclic, knots_all):
    """Ground: the basis evaluated at the knots is the identity matrix (float run of the real code)."""
    lb, ub = knots_all[0], knots_all[-1]
    st: dict = {}
    out = fnc(numpy.array(knots_all), knots=knots_all[1:-1], lower_bound=lb, upper_bound=ub, _state=st)
    m = numpy.stack([out[k] for k in out], axis=1)
    n = len(knots_all)
    want = numpy.eye(n)
    if cyclic:
        want = numpy.vstack([numpy.eye(n - 1), numpy.eye(n - 1)[0:1]])
    ok = m.shape == want.shape and numpy.allclose(m, want, atol=1e-9)
    check.obligation("crs.identity_at_knots/ground", "ground" if ok else "refuted")
    if not ok:
        p = {"kind": "c12_crs_identity", "cyclic": cyclic, "knots": knots_all}
        check.violation(f"crs_identity(cyclic={cyclic},knots={knots_all})", "basis at the knots is not the identity", p)


def _crs_center(check: Check, fnc, cyclic, train, df, tmo):
    """Centering constraint: zero column means on the training data (ground) and replay on symbolic x through the recorded state."""
    st: dict = {}
    out = fnc(numpy.array(train), df=df, constraints="center", _state=st)
    m = numpy.stack([out[k] for k in out], axis=1)
    ok = m.shape[1] == df and numpy.allclose(m.mean(axis=0), 0, atol=1e-9)
    check.obligation("crs.center/ground", "ground" if ok else "refuted")
    p0 = {"kind": "c12_crs_center", "cyclic": cyclic, "train": train, "df": df}
    if not ok:
        check.violation(f"crs_center(cyclic={cyclic},df={df})", f"column means on training data {m.mean(axis=0)} / ncols {m.shape[1]}", p0)
        return
    knots_all = st["knots"]
    n = len(knots_all)
    nb = n - 1 if cyclic else n
    # Z: coefficients of the constrained columns in the free cardinal basis (read off at the knots)
    st2 = {k: (v.copy() if hasattr(v, "copy") else v) for k, v in st.items()}
    atk = fnc(numpy.array(knots_all[:nb]), _state=st2)
    Z = numpy.stack([atk[k] for k in atk], axis=1)  # nb x df
    X = z3.Real("x0")
    lo, hi = _q(knots_all[0]), _q(knots_all[-1])
    pre = [X >= lo, X <= hi]
    frozen = {k: (v.copy() if hasattr(v, "copy") else v) for k, v in st.items()}

    def fn():
        x = sym_vector("x", 1)
        s = {k: (v.copy() if hasattr(v, "copy") else v) for k, v in st.items()}
        return fnc(x, _state=s), s

    def claims(res):
        o, s = res
        yield "state untouched", bool(set(s) == set(frozen) and all(numpy.array_equal(numpy.asarray(s[k], dtype=object), numpy.asarray(frozen[k], dtype=object)) for k in frozen))
        vals = [lift(o[k][0]) for k in o]
        conds = []
        for pc_i in range(n - 1):
            region = z3.And(X >= _q(knots_all[pc_i]), X <= _q(knots_all[pc_i + 1]))
            ref = cardinal_basis_piece(X, knots_all, cyclic, pc_i)
            want = [sum(ref[i] * _q(Z[i, c]) for i in range(nb)) for c in range(df)]
            conds.append(z3.Implies(region, z3.And(*[_near(vals[c], want[c]) for c in range(df)])))
        yield "constrained basis == cardinal basis x recorded constraint null-space (1e-9)", z3.And(*conds)

    def rep(model, lab):
        p = dict(p0, kind="c12_crs_center_replay", x=model_value(model, X))
        bad = replays.run(p)
        return (f"crs_center_replay(cyclic={cyclic},df={df})", bad, p) if bad else None

    rig.run_sym(check, "crs.center", fn, claims, pre=pre, replay=rep, timeout_ms=tmo, case_id=f"crs center cyclic={cyclic} df={df}")


def run(check: Check) -> None:
    thorough = check.tier == "thorough"
    tmo = 60000 if thorough else 10000
    check.info["explanation"] = (
        "Engine SR: the real basis_spline / cubic_spline run on a symbolic real x (one path per knot interval / "
        "extrapolation branch); on every path each column is compared, for all x, with an independent reference "
        "(textbook Cox-de Boor; cardinal natural/periodic interpolating spline solved in exact rationals). QF_NRA / QF_NIRA."
    )
    check.info["rule"] = "one case per (transform, degree/knots menu, bounds, intercept, extrapolation mode); all paths of each case"
    check.bounds.update({"bs_degree": "0..5" if thorough else "0..3", "bs_knot_menus": 8 if thorough else 5, "crs_knots": "3..6",
                         "cyclic_x_range": "[lb-2P, ub+2P]", "natural_x_range": "[lb-100, ub+100]", "tolerance_vs_float_F_matrix": "1e-9"})
    check.out_of_scope += ["symbolic knots / bounds (concrete menus only)", "degree > 5", "QR step of the centering constraint on symbolic training data",
                           "B-spline continuation outside the bounds when an inner knot equals a bound", "float rounding"]
    check.assumptions += ["F matrices (second-derivative maps) are computed by the real code in float64 and enter the terms as exact rationals"]

    _run_bs(check, thorough, tmo)

    cr, cc = TRANSFORMS["cr"], TRANSFORMS["cc"]
    nat_menus = [[0.0, 1.0, 3.0], [0.0, 1.0, 2.0, 4.0], [-1.0, 0.5, 2.0, 3.5, 5.0]]
    cyc_menus = [[0.0, 1.0, 3.0], [0.0, 1.0, 2.5, 4.0]]
    if thorough:
        nat_menus.append([0.0, 0.5, 1.5, 2.0, 4.0, 4.5])
        cyc_menus.append([-1.0, 0.5, 2.0, 3.5, 5.0])
    modes = ["extend", "clip", "zero", "na", "raise"]
    for kn in nat_menus:
        _crs_knot_identity(check, cr, False, kn)
        for mode in modes:
            _crs_case(check, cr, False, kn, mode, tmo)
    for kn in cyc_menus:
        _crs_knot_identity(check, cc, True, kn)
        for mode in (modes if thorough else ["extend", "clip", "zero"]):
            _crs_case(check, cc, True, kn, mode, tmo)
    train = [0.0, 0.3, 1.0, 1.0, 2.2, 3.5, 4.0, 5.5, 6.0]
    # df-derived knots (no constraint): df columns, as many recorded knots as the basis needs, inside the data range and sorted;
    # then the symbolic comparison with the interpolating-spline reference ON THOSE KNOTS
    for cyclic, df in ((False, 3), (False, 4), (True, 3), (True, 4)) + (((False, 5), (True, 2)) if thorough else ()):
        fnc = cc if cyclic else cr
        st: dict = {}
        out = fnc(numpy.array(train), df=df, _state=st)
        kn = [float(k) for k in st.get("knots", [])]
        ok = len(out) == df and len(kn) == (df + 1 if cyclic else df) and kn == sorted(kn) and kn[0] >= min(train) and kn[-1] <= max(train) and len(set(kn)) == len(kn)
        check.case(f"crs df-derived cyclic={cyclic} df={df}")
        check.obligation("crs.df/ground", "ground" if ok else "refuted")
        if not ok:
            p = {"kind": "c12_crs_df", "cyclic": cyclic, "train": train, "df": df}
            check.violation(f"crs_df(cyclic={cyclic},df={df})", f"{'cc' if cyclic else 'cr'}(df={df}) gave {len(out)} columns on recorded knots {kn}", p)
            continue
        for mode in ("extend", "clip"):
            _crs_case(check, fnc, cyclic, kn, mode, tmo)
    for cyclic, df in ((False, 3), (False, 4), (True, 3)):
        _crs_center(check, cc if cyclic else cr, cyclic, train, df, tmo)
    # floating point (ground): data whose offset dwarfs its spread, tiny and huge scales - partition of unity and affine invariance
    for tname, (name, vec) in itertools.product(("bs", "cr", "cc"), (("offset 1e8", [1e8 + 0.5 * k * k for k in range(9)]), ("scale 1e-8", [1e-8 * (k + 1) ** 1.5 for k in range(9)]),
                                                                  ("scale 1e12", [1e12 * (k * k + 1) for k in range(9)]), ("offset -2e9", [-2e9 + 3.0 * k for k in range(9)]))):
        p = {"kind": "c12_float", "transform": tname, "x": vec}
        bad = replays.run(p)
        check.case(f"float {tname} {name}")
        check.obligation("splines.float/ground", "refuted" if bad else "ground")
        if bad:
            check.violation(f"spline_float({tname})::{bad.split(':', 1)[0]}", bad, p)
    # a null x is neither inside nor outside the bounds: under EVERY mode its row is null, nothing is raised for it, the other rows and the
    # recorded state are what they are without it (ground)
    for tname, mode, replay_state in itertools.product(("cr", "cc", "cs", "bs"), ("extend", "clip", "zero", "na", "raise"), (False, True)):
        p = {"kind": "c12_null_rows", "transform": tname, "mode": mode, "replay_state": replay_state}
        bad = replays.run(p)
        check.case(f"null rows {tname} {mode} replay={replay_state}")
        check.obligation("nulls.modes/ground", "refuted" if bad else "ground")
        if bad:
            check.violation(f"null_rows({tname},extrapolation={mode})::{bad.split(':', 1)[0]}", bad, p)
    # centering when some TRAINING values lie outside explicit bounds, under every extrapolation mode (ground)
    for cyclic, mode in itertools.product((False, True), ("extend", "clip", "zero", "na")):
        p = {"kind": "c12_crs_center", "cyclic": cyclic, "train": train, "df": 4 if not cyclic else 3, "mode": mode, "bounds": [1.0, 5.0]}
        bad = replays.run(p)
        check.case(f"crs center out-of-bounds cyclic={cyclic} {mode}")
        check.obligation("crs.center_out_of_bounds/ground", "refuted" if bad else "ground")
        if bad:
            check.violation(f"crs_center(cyclic={cyclic},extrapolation={mode},training data outside the bounds)::{bad.split(':', 1)[0]}", bad, p)
