"""C20 — formula differentiation is the term-wise partial derivative (SR: values; CH-enum term level in harness/ch_c20.py)."""

from __future__ import annotations

import itertools

import numpy
import z3

from formulaic import Formula, model_matrix
from lib.common import Check
from lib.parallel import run_cases
from sr import rig
from sr.pipeline import symbolic_pipeline
from sr.symreal import SReal, as_sym_array, conj, lift, model_value, sym_vector

from . import matrix_common as mc
from . import replays

TERMS = ["1", "a", "b", "a:b", "a:A", "b:a:B", "2.5:a", "A", "A:B", "a:b:A", "3:a:b", "b:B"]
WRT = [("a",), ("b",), ("a", "b"), ("b", "a"), ("a", "a"), ("b", "b")]
WRT_THOROUGH = [("a", "b", "a"), ("b", "a", "b"), ("a", "a", "a")]


def _term_cols(term_obj, df, ctx):
    F = Formula([term_obj], _ordering="none")
    mm = model_matrix(F, df, context=ctx, ensure_full_rank=False, output="numpy")
    labels = list(mm.model_spec.column_names)
    return labels, numpy.asarray(mm, dtype=object).reshape((len(df), len(labels)))


def _case(check: Check, case, record=False):
    fam, wrt = case
    n = mc.NROWS
    df = mc.cat_frame()
    formula = " + ".join(fam)
    H = [z3.Real(f"h{k}") for k in range(len(wrt))]

    def fn():
        a, b = sym_vector("a", n), sym_vector("b", n)
        base = {"a": a, "b": b}
        F = Formula(list(fam), _ordering="none")
        D = F.differentiate(*wrt)
        terms, dterms = list(F), list(D)
        out = {"nterms": (len(terms), len(dterms)), "parts": []}
        with symbolic_pipeline():
            for t, d in zip(terms, dterms):
                is_zero = repr(d) == "0"
                if is_zero:
                    dl, dc = None, None
                else:
                    dl, dc = _term_cols(d, df, base)
                # iterated finite difference of the original term's columns
                acc = None
                for signs in itertools.product((0, 1), repeat=len(wrt)):
                    ctx = {k: v.copy() for k, v in base.items()}
                    for use, var, h in zip(signs, wrt, H):
                        if use:
                            ctx[var] = as_sym_array([x + SReal(h) for x in ctx[var]])
                    tl, tc = _term_cols(t, df, ctx)
                    coef = (-1) ** (len(wrt) - sum(signs))
                    acc = coef * tc if acc is None else acc + coef * tc
                out["parts"].append((repr(t), repr(d), dl, dc, tl, acc, is_zero))
        return out

    def claims(res):
        yield "same number of terms", res["nterms"][0] == res["nterms"][1]
        hprod = z3.RealVal(1)
        for h in H:
            hprod = hprod * h
        for t, d, dl, dc, tl, acc, is_zero in res["parts"]:
            if is_zero:
                yield f"d({t}) is 0: finite difference vanishes identically", conj([lift(acc[i, j]) == 0 for i in range(acc.shape[0]) for j in range(acc.shape[1])])
                continue
            yield f"d({t}) = {d}: as many columns as the original term", dc.shape == acc.shape
            if dc.shape == acc.shape:
                yield f"d({t}) = {d}: column == finite difference / h for all data and h != 0", conj(
                    [lift(dc[i, j]) * hprod == lift(acc[i, j]) for i in range(acc.shape[0]) for j in range(acc.shape[1])])

    def rep(model, label):
        p = {"kind": "c20_values", "terms": list(fam), "wrt": list(wrt),
             "a": [model_value(model, z3.Real(f"a{i}")) for i in range(n)], "b": [model_value(model, z3.Real(f"b{i}")) for i in range(n)],
             "h": [model_value(model, h) for h in H]}
        for cand in (p, dict(p, a=[0.5, 1.25, 2.0, 3.5, 4.75, 6.0, 7.5], b=[1.0, 7.0, 2.5, 5.5, 0.25, 3.0, 6.5], h=[0.5, 2.0, 1.25][: len(wrt)])):
            bad = replays.run(cand)
            if bad:
                return (f"derivative::wrt={'.'.join(wrt)}", bad, cand)
        return None

    rig.run_sym(check, "derivative.values", fn, claims, pre=[h != 0 for h in H], replay=rep, timeout_ms=10000,
                case_id=f"{formula} wrt {wrt}", sample={"formula": formula, "wrt": list(wrt), "data": "a, b in R^7 and steps h symbolic"}, record=record)


def run(check: Check) -> None:
    import random

    thorough = check.tier == "thorough"
    rng = random.Random(check.seed)
    check.info["explanation"] = (
        "Engine SR: for formulas multilinear in symbolic numeric columns, every term of SimpleFormula.differentiate(*wrt) is materialised by the "
        "real pipeline and compared, for ALL data and ALL steps h != 0, with the iterated finite difference of the original term's columns "
        "(polynomial identity, QF_NRA); zero derivatives must have identically vanishing differences. Term-level structure (same number and order "
        "of terms, zero / factor removed / one, successive variables) is explored by CrossHair in harness/ch_c20.py."
    )
    check.info["rule"] = "case = (term family of <=3 from a 12-term menu, wrt tuple of <=2 variables)"
    check.bounds.update({"terms_menu": TERMS, "wrt": [list(w) for w in WRT] + ([list(w) for w in WRT_THOROUGH] if check.tier == "thorough" else []), "rows": mc.NROWS})
    check.out_of_scope += ["use_sympy=True (sympy is not installed in /venv)", "non-multilinear factors (log(a), a**2): without sympy they differentiate to 0 by design"]
    fams = [[t] for t in TERMS]
    pairs = [list(p) for p in itertools.permutations(TERMS, 2)]
    rng.shuffle(pairs)
    fams += pairs if thorough else pairs[:25]
    tri = [rng.sample(TERMS, 3) for _ in range(200 if thorough else 15)]
    fams += tri
    cases = [(tuple(f), w) for f in fams for w in (WRT + (WRT_THOROUGH if thorough else []))]
    run_cases(check, cases, _case)
    from . import ch_c20_run

    ch_c20_run.run_c20(check, thorough)
