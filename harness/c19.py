"""C19 — Structured, LayeredMapping and SimpleFormula container laws (Engine CH)."""
from ch import runner
from lib.common import Check

from . import ch_c19


def run(check: Check) -> None:
    thorough = check.tier == "thorough"
    check.info["explanation"] = (
        "Engine CH (CrossHair 0.0.110, z3): one harness function per law, executed symbolically on the real classes. LayeredMapping laws "
        "are explored with SYMBOLIC dict[int,int] layers (<=2,2,1 keys) and symbolic keys/values; Structured laws over 9 enumerated shapes "
        "(nesting depth <= 3) with symbolic integer leaves; SimpleFormula insert/setitem/delitem sequences of length 2 with symbolic indices in "
        "[-4, 4] and terms from a 7-term pool (degrees 0-3). Verdict 'Confirmed over all paths' = path tree exhausted; each harness has a "
        "reachability twin that must be violated; counterexamples are replayed natively."
    )
    check.info["rule"] = "case = (law, shard)"
    check.bounds.update({"layers": "<=3 layers, <=2 keys each", "structured_shapes": ch_c19.NSHAPES, "formula_ops": 2, "orderings": ["degree", "none", "sort"], "indices": "[-4,3] thorough / [-3,2] quick", "term_pool": "7 thorough / 3 quick"})
    check.out_of_scope += ["operation sequences longer than 2 on formulas", "layers with non-int keys", "shapes outside the 9-shape menu"]
    pct = 1500 if thorough else 100
    fns = {f: [None] for f in ("lm_lookup", "lm_len_iter", "lm_write", "lm_write_len", "lm_delete", "lm_with_layers", "lm_with_layers_multi", "lm_named_lookup_consistent", "lm_layer_names", "st_map", "st_simplify", "st_update_merge")}
    fns["st_simplify_deep"] = list(range(16))
    fns["sf_ops"] = ch_c19.sf_shards(-4, 3, 7) if thorough else ch_c19.sf_shards(-3, 2, 3)
    fns["sf_more"] = [{"SHARD": k, "ORD": o, "R": (5 if thorough else 2), "NP": (7 if thorough else 3)} for k in range(6) for o in range(3)]
    for f in fns:
        check.functions.add(f"harness.ch_c19:{f}")
    check.functions.update({"formulaic.utils.layered_mapping:LayeredMapping.*", "formulaic.utils.structured:Structured._map/_flatten/_simplify/_update/_merge",
                            "formulaic.formula:SimpleFormula.insert/__setitem__/__delitem__/__getitem__/_reorder (+ the MutableSequence mixin methods built on them)"})
    # native cross-validation: the same harness functions, untraced, over a concrete grid (vouches that CrossHair executed faithfully)
    import itertools

    def _grid():
        return all(
            [ch_c19.lm_lookup({1: 2}, {1: 3, 4: 5}, {4: 6, 9: 9}, k) for k in (1, 4, 9, 0)]
            + [ch_c19.lm_len_iter({1: 2, 3: 3}, {1: 3, 4: 5})]
            + [ch_c19.lm_write({1: 2}, {3: 4}, k, 9, k2) for k in (1, 3, 0) for k2 in (1, 3, 0, 7)]
            + [ch_c19.lm_delete({1: 2}, {3: 4}, k, 9, k2) for k in (1, 3, 0) for k2 in (1, 3, 0)]
            + [ch_c19.lm_write_len({1: 2}, {1: 5, 3: 4}, k, 9) for k in (1, 3, 0)]
            + [ch_c19.lm_with_layers({1: 2}, {1: 4, 2: 2}, k, 9, k2, p) for k in (1, 2, 0) for k2 in (0, 1, 2) for p in (True, False)]
            + [ch_c19.lm_layer_names({1: 2}, {3: 4}, k, 0, w) for k in (1, 3, 0) for w in (True, False)]
            + [ch_c19.lm_named_lookup_consistent({1: 2}, {1: 3, 4: 5}, {4: 6, 9: 9}, k, sh) for k in (1, 4, 9, 0) for sh in range(4)]
            + [ch_c19.lm_with_layers_multi({1: 2, 5: 5}, {1: 3, 4: 5}, {1: 9, 4: 6, 7: 7}, k, p, ip) for k in (1, 4, 5, 7, 0) for p in (True, False) for ip in (True, False)]
            + [f(i, 1, 2, 3, 4) for f in (ch_c19.st_map, ch_c19.st_simplify) for i in range(ch_c19.NSHAPES)]
            + [ch_c19.st_update_merge(i, 1, 2, 3, 4, 9) for i in range(ch_c19.NSHAPES)]
            + [ch_c19.st_simplify_deep(i, 1, 2, 3) for i in range(ch_c19.NTREES)]
        ) and all(_sf_grid(o) for o in (0, 1, 2)) and all(_sf_more_grid(k, o) for k in range(6) for o in range(3))

    def _sf_more_grid(k, o):
        ch_c19.__dict__.update({"__SHARD__": k, "__ORD__": o, "__R__": 5, "__NP__": 7})
        try:
            return all(ch_c19.sf_more(k, i, j, t, u, o) for i in range(-5, 6) for j in range(-5, 6) for t in range(7) for u in range(0, 7, 2))
        finally:
            ch_c19.__dict__.update({"__SHARD__": 0, "__ORD__": 0, "__R__": 5, "__NP__": 3})

    def _sf_grid(o):
        ch_c19.__dict__.update({"__ORD__": o, "__LO__": -4, "__HI__": 3, "__NP__": 7})
        try:
            return all(ch_c19.sf_ops(a, i, t, b, j, u) for a in range(3) for b in range(3) for i in range(-4, 4) for j in range(-4, 4) for t in range(7) for u in range(0, 7, 2))
        finally:
            ch_c19.__dict__.update({"__ORD__": 0, "__LO__": -3, "__HI__": 2, "__NP__": 3})
    try:
        grid_ok = _grid()
    except Exception:  # an exception escaping from the class under test is a failed law, not a harness problem
        grid_ok = False
    check.obligation("containers/native cross-validation", "ground" if grid_ok else "refuted")
    if not grid_ok:  # reproduced natively by construction: report the first failing law
        probes = [("lm_lookup", [{1: 2}, {1: 3, 4: 5}, {4: 6, 9: 9}, 4]), ("lm_len_iter", [{1: 2, 3: 3}, {1: 3, 4: 5}]), ("lm_write", [{1: 2}, {3: 4}, 1, 9, 3]),
                  ("lm_write", [{1: 2}, {3: 4}, 3, 9, 1]), ("lm_write_len", [{1: 2}, {1: 5, 3: 4}, 1, 9]), ("lm_write_len", [{1: 2}, {1: 5, 3: 4}, 3, 9]), ("lm_delete", [{1: 2}, {3: 4}, 1, 9, 3]), ("lm_with_layers", [{1: 2}, {1: 4, 2: 2}, 1, 9, 2, True]),
                  ("lm_with_layers", [{1: 2}, {1: 4, 2: 2}, 2, 9, 1, False]), ("lm_layer_names", [{1: 2}, {3: 4}, 3, 0, False])]
        probes += [("lm_named_lookup_consistent", [{1: 2}, {1: 3, 4: 5}, {4: 6, 9: 9}, k, sh]) for k in (1, 4, 9, 0) for sh in range(4)]
        probes += [("lm_with_layers_multi", [{1: 2, 5: 5}, {1: 3, 4: 5}, {1: 9, 4: 6, 7: 7}, k, p, ip]) for k in (1, 4, 5, 7, 0) for p in (True, False) for ip in (True, False)]
        probes += [(f, [i, 1, 2, 3, 4]) for f in ("st_map", "st_simplify") for i in range(ch_c19.NSHAPES)] + [("st_update_merge", [i, 1, 2, 3, 4, 9]) for i in range(ch_c19.NSHAPES)]
        probes += [("st_simplify_deep", [i, 1, 2, 3]) for i in range(ch_c19.NTREES)]
        probes = [(f, a, {}) for f, a in probes]
        for o in (0, 1, 2):
            probes += [("sf_ops", [a, i, t, b, j, u], {"__ORD__": o, "__LO__": -4, "__HI__": 3, "__NP__": 7}) for a in range(3) for b in range(3) for i in range(-4, 4) for j in range(-4, 4) for t in range(7) for u in range(0, 7, 2)]
        for k in range(6):
            for o in (0, 1, 2):
                probes += [("sf_more", [k, i, j, t, u, o], {"__SHARD__": k, "__ORD__": o, "__R__": 5, "__NP__": 7}) for i in range(-5, 6) for j in range(-5, 6) for t in range(7) for u in range(0, 7, 2)]
        reported = set()
        for fname, args, glob in probes:
            saved = {k: ch_c19.__dict__[k] for k in glob}
            ch_c19.__dict__.update(glob)
            try:
                okp = getattr(ch_c19, fname)(*args)
            except Exception:
                okp = False
            finally:
                ch_c19.__dict__.update(saved)
            if okp is not True and (fname, glob.get("__ORD__")) not in reported:
                reported.add((fname, glob.get("__ORD__")))
                check.violation(f"{fname}" + (f"[ordering={('degree', 'none', 'sort')[glob['__ORD__']]}]" if glob else ""), f"container law {fname} fails natively for {args}" + (f" under _ordering={('degree', 'none', 'sort')[glob['__ORD__']]!r}" if glob else ""),
                                {"kind": "ch_native", "module": "ch_c19", "function": fname, "call": {"args": args, "kwargs": {}}, "globals": glob})
                break
    runner.run_module(check, "ch_c19", fns, pct=pct, ppt=15, group="containers",
                      keyer=lambda fname, call: f"{fname}")
    check.sample({"law": "lm_write", "inputs": "l1, l2: symbolic dict[int,int] (<=2 keys), k, v, k2: symbolic int", "verdict": "CrossHair: confirmed over all paths"})
