"""Engine-free part of C10: metadata facts decided on realised spec objects (shared by the harness and the native replay)."""

from __future__ import annotations

import numpy
import pandas

from oracle.columns_ref import split_label

from . import matrix_common as mc

# term syntax -> (label-name set of its factors, data variables it uses)
TERMS = {
    "a": ({"a"}, {"a"}), "b": ({"b"}, {"b"}), "A": ({"A"}, {"A"}), "B": ({"B"}, {"B"}), "K": ({"K"}, {"K"}),
    "B:A": ({"A", "B"}, {"A", "B"}), "a:A": ({"a", "A"}, {"a", "A"}), "b:a:A": ({"a", "b", "A"}, {"a", "b", "A"}),
    "A:B:a": ({"a", "A", "B"}, {"a", "A", "B"}), "poly(a, 2)": ({"poly(a, 2)"}, {"a"}), "I(a*2)": ({"I(a * 2)"}, {"a"}),
    "{a+b}": ({"a + b"}, {"a", "b"}), "2.5:b": ({"b"}, {"b"}), "b:B": ({"b", "B"}, {"b", "B"}),
}


def frame():
    df = mc.cat_frame()
    df["K"] = pandas.Categorical(["k"] * mc.NROWS)
    return df


def metadata_findings(mm, out, term_syntax, clustered=False):
    """clustered: the spec was built with cluster_by=... - term ranges then follow the COLUMN order (a permutation of the formula's terms)."""
    try:
        return _metadata_findings(mm, out, term_syntax, clustered)
    except Exception as e:  # inconsistent metadata made the reading itself fail
        return [("metadata-inconsistent", f"reading the spec's metadata failed with {type(e).__name__}: {e}")]


def _metadata_findings(mm, out, term_syntax, clustered=False):
    """Ground part: returns list of (tag, message). Works on symbolic or float matrices."""
    spec = mm.model_spec
    labels = list(spec.column_names)
    bad = []
    if out == "pandas" and list(mm.columns) != labels:
        bad.append(("column-names", f"column_names {labels} != DataFrame labels {list(mm.columns)}"))
    ncols = numpy.asarray(mm.todense() if out == "sparse" else mm, dtype=object).reshape((mc.NROWS, -1)).shape[1] if labels else 0
    if ncols != len(labels):
        bad.append(("column-names", f"{len(labels)} names for {ncols} columns"))
    if dict(spec.column_indices) != {l: i for i, l in enumerate(labels)}:
        bad.append(("column-indices", "column_indices is not name -> position"))
    # term index ranges: contiguous, disjoint, in term order, covering
    pos = 0
    terms = list(spec.term_indices.items())
    if clustered:
        if sorted(map(repr, (t for t, _ in terms))) != sorted(map(repr, spec.formula)) or len(terms) != len(list(spec.formula)):
            bad.append(("term-order", f"term_indices keys {[t for t, _ in terms]} are not a permutation of the formula's terms {list(spec.formula)}"))
    elif [t for t, _ in terms] != list(spec.formula):
        bad.append(("term-order", f"term_indices keys {[t for t, _ in terms]} are not the formula's terms in order {list(spec.formula)}"))
    for t, idx in terms:
        if idx != list(range(pos, pos + len(idx))):
            bad.append(("term-ranges", f"term {t!r}: indices {idx} not contiguous from {pos}"))
        pos += len(idx)
        sl = spec.term_slices[t]
        if list(range(ncols))[sl] != idx:
            bad.append(("term-slices", f"term {t!r}: slice {sl} != indices {idx}"))
        # the columns in the term's range are products of (a subset of) the term's own factors
        names = {f.expr for f in t.factors if f.eval_method.value != "literal"}
        for j in idx:
            if labels[j] == "Intercept":
                pieces = set()
            else:
                pieces = {_piece_name(p, names) for p in split_label(labels[j])}
            if not pieces <= names:
                bad.append(("term-ranges", f"column {labels[j]!r} listed under term {t!r}"))
    if pos != ncols:
        bad.append(("term-ranges", f"term ranges cover {pos} of {ncols} columns"))
    # lookups
    syntax_of = {_printed(s): s for s in (term_syntax or [])}
    for t, idx in terms:
        want_slice = slice(idx[0], idx[-1] + 1) if idx else slice(0, 0)
        printed = repr(t)
        probes = {
            "get_slice(term object)": lambda: spec.get_slice(t),
            "get_slice(printed form)": lambda: spec.get_slice(printed),
            "term_slices[printed form]": lambda: spec.term_slices[printed],
        }
        for name, f in probes.items():
            try:
                got = f()
                ok = list(range(ncols))[got] == idx
            except Exception as e:
                got, ok = f"{type(e).__name__}", False
            if not ok:
                srt = ":".join(sorted(fa.expr for fa in t.factors)) == ":".join(fa.expr for fa in t.factors)
                bad.append((f"{name}{'' if srt else ' [factors not in sorted order]'}", f"{name} for term {printed!r} gives {got}, its columns are {idx}"))
        probes2 = {
            "term_indices[printed form]": lambda: spec.term_indices[printed],
            **({"get_term_indices([term as written])": (lambda: spec.get_term_indices([syntax_of[printed]]))} if printed in syntax_of else {}),
        }
        for name, f in probes2.items():
            try:
                got = f()
                ok = got == idx
            except Exception as e:
                got, ok = f"{type(e).__name__}", False
            if not ok:
                srt = ":".join(sorted(fa.expr for fa in t.factors)) == ":".join(fa.expr for fa in t.factors)
                bad.append((f"{name}{'' if srt else ' [factors not in sorted order]'}", f"{name} for term {printed!r} gives {got}, its columns are {idx}"))
    for j, l in enumerate(labels):
        try:
            ok = spec.get_slice(l) == slice(j, j + 1) or (list(range(ncols))[spec.get_slice(l)] == [j])
            ok = ok and spec.get_column_indices(l) == [j] and spec.get_slice(j) == slice(j, j + 1)
        except Exception as e:
            ok = False
        if not ok:
            # a column name that is also the printed form of a term legitimately resolves to the term first
            t_same = [idx for t, idx in terms if repr(t) == l]
            if not (t_same and t_same[0] and j in t_same[0]):
                bad.append(("column-lookup", f"get_slice/get_column_indices({l!r}) does not select position {j}"))
    # variables
    by_term = dict(terms)
    for v in (("a", "b", "A", "B", "K") if term_syntax else ()):
        want = sorted({i for s in term_syntax for t, idx in terms if repr(t) == _printed(s) and v in TERMS[s][1] for i in idx})
        got = spec.variable_indices.get(v)
        if got is None and not any(v in TERMS[s][1] for s in term_syntax):
            continue
        # a term that produced no columns contributes nothing
        if got is None:
            got = []
        if sorted(got) != want:
            bad.append(("variable-indices", f"variable_indices[{v!r}] = {got}, columns of the terms using it are {want}"))
    # lookups are queries: a sequence of them (several terms at once, then single ones again) leaves the metadata as it was
    snap = {repr(t): list(idx) for t, idx in spec.term_indices.items()}
    ts = [t for t, _ in terms]
    try:
        for k in range(len(ts) - 1):
            got = list(spec.get_term_indices([ts[k], ts[k + 1]]))
            if sorted(got) != sorted(snap[repr(ts[k])] + snap[repr(ts[k + 1])]):  # (the identifiers are read as a formula: its own term order decides the order of the result)
                bad.append(("get_term_indices(two terms)", f"get_term_indices([{ts[k]!r}, {ts[k + 1]!r}]) gives {got}, their columns are {snap[repr(ts[k])] + snap[repr(ts[k + 1])]}"))
        if len(ts) >= 2:
            spec.get_term_indices(list(reversed(ts)))
    except Exception as e:
        bad.append(("get_term_indices(two terms)", f"a lookup of several terms raised {type(e).__name__}: {e}"))
    after = {repr(t): list(idx) for t, idx in spec.term_indices.items()}
    if after != snap:
        bad.append(("lookup-mutates-metadata", f"after looking several terms up at once term_indices changed from {snap} to {after}"))
    for t, idx in terms:
        if list(range(ncols))[spec.get_slice(t)] != snap[repr(t)] and not any(tag.startswith("get_slice(term object)") for tag, _ in bad):
            bad.append(("lookup-mutates-metadata", f"after the lookups get_slice({t!r}) selects {list(range(ncols))[spec.get_slice(t)]}, its columns are {snap[repr(t)]}"))
    return bad


def _printed(s):
    from formulaic import Formula

    return repr(list(Formula([s]))[0])


def _piece_name(p, names):
    if p in names:
        return p
    return p[: p.rfind("[")] if p.endswith("]") and "[" in p else p


