"""C18 — materialization is pure and deterministic across calls and histories (Engine SR; hash seeds outside)."""

from __future__ import annotations

import itertools
import random

import z3

from lib.common import Check
from lib.parallel import run_cases
from sr import rig
from sr.pipeline import symbolic_pipeline
from sr.symreal import conj, model_value, same_cell, sym_vector

from . import c18_common as cc
from . import matrix_common as mc
from . import replays


def _case(check: Check, case, record=False):
    formula, history = case
    n = mc.NROWS

    def fn():
        import numpy

        f1, f2 = mc.cat_frame(), mc.cat_frame(a_rows=list(reversed(mc.A_ROWS)))
        f1["z"] = numpy.arange(n, dtype=float) + 0.5
        f2["z"] = [numpy.nan if k in cc.Z_NULLS_D2 else 10.0 + k for k in range(n)]
        d1 = (f1, {"a": sym_vector("a", n), "b": sym_vector("b", n), "x 1": sym_vector("x", n), "x_1": sym_vector("u", n)})
        d2 = (f2, {"a": sym_vector("c", n), "b": sym_vector("d", n), "x 1": sym_vector("y", n), "x_1": sym_vector("v", n)})
        import pandas

        f3 = pandas.DataFrame({"a": pandas.Categorical(["p", "q", "r", "p", "q", "r", "p"]), "B": f1["B"], "z": f1["z"]})
        d3 = (f3, {"A": sym_vector("e", n), "b": sym_vector("g", n)})
        with symbolic_pipeline():
            return cc.run_history(formula, history, {1: d1, 2: d2, 3: d3}, same_cell, lambda num: dict(num))

    def claims(res):
        problems, cl = res
        for tag, msg in problems:
            p = {"kind": "c18_history", "formula": formula, "history": list(history), "tag": tag}
            bad = replays.run(p)
            if bad:
                check.violation(f"history::{tag}", msg, p)
            else:
                check.nonreproducing(f"{formula} {history}: {tag}: {msg}")
        yield "purity of inputs and earlier specs (ground)", True
        for label, cs, tag in cl:
            yield f"[{tag}] {label}", conj(cs)

    def rep(model, label):
        tag = label[1 : label.index("]")] if label.startswith("[") and "]" in label else None
        p = {"kind": "c18_history", "formula": formula, "history": list(history), "tag": tag}
        bad = replays.run(p)
        return ("history", bad, p) if bad else None

    rig.run_sym(check, "histories", fn, claims, replay=rep, timeout_ms=10000, case_id=f"{formula} {history}",
                sample={"formula": formula, "history": list(history), "data": "D1, D2 symbolic (7 rows each)"}, record=record)


def run(check: Check) -> None:
    thorough = check.tier == "thorough"
    rng = random.Random(check.seed)
    check.info["explanation"] = (
        "Engine SR: histories of <=3 calls drawn from {model_matrix(F, Di), spec.get_model_matrix(Di), unmaterialized ModelSpec.get_model_matrix(Di), "
        "F.get_model_matrix(Di)} over SHARED formula / spec objects, D1 and D2 symbolic. For all values each call's result is, cell by cell, the "
        "result of the same call made first on fresh objects; input arrays, frames, the formula and every previously obtained spec's state are unchanged "
        "after every call. The interpreter hash seed cannot be a symbolic variable of this engine: that leg is outside the claim."
    )
    check.info["rule"] = "case = (formula, history); history = sequence of <=3 operations from 8"
    check.bounds.update({"history_length": "<=3", "operations": cc.OPS, "formulas": cc.FORMULAS})
    check.out_of_scope += ["PYTHONHASHSEED dependence for ALL seeds (process-level constant; a labelled ground companion runs a native battery under 3-5 seeds)", "histories longer than 3"]
    hist = [h for r in (1, 2) for h in itertools.product(cc.OPS, repeat=r)]
    h3 = list(itertools.product(cc.OPS, repeat=3))
    rng.shuffle(h3)
    hist += h3 if thorough else h3[:60]
    cases = [(f, h) for f in cc.all_formulas(check.seed, thorough) for h in hist]
    swap = [(x, y) for x in ("M1", "U1", "F1") for y in cc.OPS3] + [(y, x) for x in ("M1", "U1", "F1") for y in cc.OPS3] + [("F1", "F3", "F1"), ("M3", "M1", "M3")]
    cases += [(f, h) for f in cc.KIND_SWAP_FORMULAS for h in swap]
    run_cases(check, cases, _case)
    # native leg (ground): numeric inputs as raw float64 arrays in the context, incl. lag (defined across rows)
    for formula in cc.CONTEXT_ARRAY_FORMULAS:
        for h in [h for r in (1, 2) for h in itertools.product(("M1", "M2", "S1", "S2", "F1", "U2", "R1"), repeat=r)] + [("M1", "S2", "M1"), ("S1", "S1", "S2"), ("F2", "M1", "F2"), ("R1", "R1", "R1"), ("R2", "M2", "R2")]:
            p = {"kind": "c18_context_arrays", "formula": formula, "history": list(h)}
            bad = replays.run(p)
            check.case(f"context-arrays:{formula}:{h}")
            check.obligation("histories.context_arrays/ground", "refuted" if bad else "ground")
            if bad:
                check.violation(f"history::context-arrays::{bad.split(':', 1)[0]}", bad, p)
    _hash_seed_companion(check)
    _shadow_companion(check)


def _hash_seed_companion(check: Check) -> None:
    """Labelled ground companion (NOT solver-decided): a native battery under several PYTHONHASHSEED values must give bit-identical digests."""
    import os
    import subprocess

    seeds = ["0", "1", "2", "12345", "987654321"] if check.tier == "thorough" else ["0", "1", "12345"]
    outs = {}
    for sd in seeds:
        env = {**os.environ, "PYTHONHASHSEED": sd}
        p = subprocess.run(["/venv/bin/python", "-m", "harness.c18_hashseed"], cwd="/verif", env=env, capture_output=True, text=True, timeout=600)
        if p.returncode != 0:
            check.harness_error(f"hash-seed battery failed under PYTHONHASHSEED={sd}: {p.stderr[-400:]}")
            return
        outs[sd] = p.stdout.strip().splitlines()
    base = outs[seeds[0]]
    bad = None
    for sd in seeds[1:]:
        for l0, l1 in zip(base, outs[sd]):
            if l0 != l1:
                bad = (sd, l0, l1)
                break
    check.obligation("hash_seed_companion/ground", "refuted" if bad else "ground", len(base) * (len(seeds) - 1))
    check.info["hash_seed_companion"] = {"seeds": seeds, "cases": len(base), "note": "enumeration of processes; not solver-decided"}
    if bad:
        sd, l0, l1 = bad
        case = l0.split(" ", 2)[2]
        check.violation(f"hash-seed::{case}", f"results for {case!r} differ between PYTHONHASHSEED={seeds[0]} and {sd}", {"kind": "c18_hashseed", "seeds": [seeds[0], sd], "case": case})


def _shadow_companion(check: Check) -> None:
    """Labelled ground companion: one fresh interpreter in which a name is a plain context function in one build and a built-in
    stateful transform in the next (and the other way round) - each build means what its own environment says."""
    import subprocess

    p = subprocess.run(["/venv/bin/python", "-m", "harness.c18_shadow"], cwd="/verif", capture_output=True, text=True, timeout=600, env={**__import__("os").environ})
    lines = [l[len("PROBLEM "):] for l in p.stdout.splitlines() if l.startswith("PROBLEM ")]
    if p.returncode != 0 or "DONE" not in p.stdout:
        check.harness_error(f"shadow companion failed: {p.stderr[-400:]}")
        return
    check.case("shadowed transform names across builds of one process")
    check.obligation("histories.shadowed_names/ground", "refuted" if lines else "ground")
    for l in lines[:3]:
        check.violation(f"history::shadowed-name::{l.split(':', 1)[0]}", l, {"kind": "c18_shadow"})
