"""
Engine-free helpers shared by the model-matrix harnesses (C02-C07, C09, C10, C18, C20) and their native replays:
the factor menu, formula generator, concrete categorical layout and the label->product expectation.
"""

from __future__ import annotations

import itertools
from typing import Any, Optional

import numpy
import pandas

from oracle.columns_ref import World, split_label

# syntax in the formula -> name used in labels (after the library's Python normalisation)
NUMERIC = {"a": "a", "b": "b", "I(a*2)": "I(a * 2)", "{a+b}": "a + b"}
CATEGORICAL = {"A": "A", "B": "B", "C(A)": "C(A)", "C(A, contr.sum)": "C(A, contr.sum)", "C(B, contr.helmert)": "C(B, contr.helmert)"}
LABEL_NAME = {**NUMERIC, **CATEGORICAL}

A_LEVELS, B_LEVELS = ["x", "y", "z"], ["u", "v"]
A_ROWS = ["x", "y", "z", "x", "y", "z", "x"]
B_ROWS = ["u", "u", "u", "v", "v", "v", "v"]
NROWS = len(A_ROWS)


INDEXES = {None: None, "default": None, "permuted": [3, 0, 6, 2, 5, 1, 4], "string": list("pqrstuv"), "nonunique": [1, 1, 0, 0, 2, 2, 1],
           "range-offset": pandas.RangeIndex(10, 17), "range-step": pandas.RangeIndex(3, 17, 2)}  # RangeIndex objects that are not 0..n-1


# other data layouts ("any row count >= 1, any level sets"): name -> (A rows, A levels, B rows, B levels)
LAYOUTS = {
    "crossed7": (A_ROWS, A_LEVELS, B_ROWS, B_LEVELS),
    "one-row": (["y"], A_LEVELS, ["v"], B_LEVELS),
    "one-level-B": (["y", "x", "y"], ["x", "y"], ["u", "u", "u"], ["u"]),
}


def cat_frame(index=None, a_rows=None, b_rows=None, a_levels=None, b_levels=None) -> pandas.DataFrame:
    if isinstance(index, str):
        index = INDEXES[index]
    a_rows, b_rows = a_rows or A_ROWS, b_rows or B_ROWS
    if index is not None:
        index = index[: len(a_rows)]
    return pandas.DataFrame(
        {
            "A": pandas.Categorical(a_rows, categories=a_levels or A_LEVELS),
            "B": pandas.Categorical(b_rows, categories=b_levels or B_LEVELS),
        },
        index=index,
    )


def layout_frame(layout: str, index=None) -> pandas.DataFrame:
    ar, al, br, bl = LAYOUTS[layout]
    return cat_frame(index, ar, br, al, bl)


def layout_world(layout: str, a, b, **kw):
    ar, al, br, bl = LAYOUTS[layout]
    return world(a, b, a_rows=ar, b_rows=br, a_levels=al, b_levels=bl, **kw)


def full_frame(a, b, index=None, a_rows=None, b_rows=None, layout=None) -> pandas.DataFrame:
    df = layout_frame(layout, index) if layout else cat_frame(index, a_rows, b_rows)
    df["a"] = numpy.asarray(a, dtype=float)
    df["b"] = numpy.asarray(b, dtype=float)
    return df


def world(a: list, b: list, one: Any = 1.0, zero: Any = 0.0, a_rows=None, b_rows=None, two: Any = 2.0, a_levels=None, b_levels=None) -> World:
    a_rows, b_rows = a_rows or A_ROWS, b_rows or B_ROWS
    A_LEVELS_, B_LEVELS_ = a_levels or A_LEVELS, b_levels or B_LEVELS
    from fractions import Fraction

    from oracle import contrasts_ref as cref

    def table(levels, coding, prefix, named):
        # column j of a reduced coding -> {level: value}; sum-to-zero codings name their columns after the first n-1 levels
        return {f"{prefix}{named[j]}": {str(l): (int(coding[i][j]) if Fraction(coding[i][j]).denominator == 1 else float(coding[i][j])) for i, l in enumerate(levels)}
                for j in range(len(levels) - 1)}

    coded = {}
    if len(A_LEVELS_) >= 2:
        coded["C(A, contr.sum)"] = table(A_LEVELS_, cref.sum_(len(A_LEVELS_)), "S.", A_LEVELS_[:-1])
    if len(B_LEVELS_) >= 2:
        coded["C(B, contr.helmert)"] = table(B_LEVELS_, cref.helmert(len(B_LEVELS_)), "H.", B_LEVELS_[1:])
    return World(
        len(a),
        numeric={"a": list(a), "b": list(b), "I(a * 2)": [two * v for v in a], "a + b": [x + y for x, y in zip(a, b)]},
        categorical={"A": (A_LEVELS_, a_rows), "C(A)": (A_LEVELS_, a_rows), "B": (B_LEVELS_, b_rows), "C(A, contr.sum)": (A_LEVELS_, a_rows), "C(B, contr.helmert)": (B_LEVELS_, b_rows)},
        one=one,
        zero=zero,
        coded=coded,
    )


# ------------------------------------------------------------------------------------------------ formulas


class T:
    """A term of the generator: non-literal factors (formula syntax, in written order) and literal scalings."""

    def __init__(self, factors=(), lits=(), lit_first=True):
        self.factors, self.lits, self.lit_first = tuple(factors), tuple(lits), lit_first

    def render(self) -> str:
        parts = list(self.lits) + list(self.factors) if self.lit_first else list(self.factors) + list(self.lits)
        return ":".join(parts) if parts else "1"

    @property
    def key(self):
        return frozenset(LABEL_NAME[f] for f in self.factors)

    @property
    def scale(self) -> float:
        s = 1.0
        for l in self.lits:
            s *= float(l)
        return s

    def __repr__(self):
        return self.render()


def render_formula(terms: list[T], intercept: bool) -> str:
    body = " + ".join(t.render() for t in terms)
    return body if intercept else ("0 + " + body if body else "0")


def candidate_terms(max_factors=3, with_python=True, with_lits=True) -> list[T]:
    base = ["a", "b", "A", "B"] + (["C(A)", "I(a*2)", "{a+b}", "C(A, contr.sum)", "C(B, contr.helmert)"] if with_python else [])
    var_of = lambda f: "A" if f in ("A", "C(A)", "C(A, contr.sum)") else "B" if f in ("B", "C(B, contr.helmert)") else f
    out = []
    for k in range(1, max_factors + 1):
        for combo in itertools.permutations(base, k):
            if len({var_of(f) for f in combo}) < len(combo):
                continue  # same variable encoded twice (excluded by C03's precondition; keep C02 simple too)
            if combo != tuple(sorted(combo)) and k == 3:
                # for 3-factor terms keep the sorted order and one rotated order only
                if combo != tuple(sorted(combo))[1:] + tuple(sorted(combo))[:1]:
                    continue
            out.append(T(combo))
    if with_lits:
        extra = []
        for t in out:
            if len(t.factors) <= 2:
                extra.append(T(t.factors, ("2.5",), True))
                if len(t.factors) == 1:
                    extra.append(T(t.factors, ("3",), False))
        out += extra
    return out


def term_scales_for_label(label: str, terms: list[T], w: World) -> list[Optional[float]]:
    """
    Literal scales the column may legitimately carry: that of the term with exactly the label's factors if the
    formula has one; otherwise (rank reduction may emit a term's sub-products) those of the terms containing them.
    """
    if label == "Intercept":
        exact = [t for t in terms if not t.factors]
        cands = exact or [t for t in terms]
        return sorted({(t.scale if t.lits else None) for t in cands} | ({None} if not exact else set()), key=str)
    names = frozenset(w.piece_name(p) for p in split_label(label))
    exact = [t for t in terms if t.key == names]
    cands = exact or [t for t in terms if t.key > names]
    if not cands:
        raise KeyError(f"column {label!r} does not belong to any term of the formula")
    return sorted({(t.scale if t.lits else None) for t in cands}, key=str)


def expected_full_labels(formula_terms, w: World) -> list[str]:
    """formula_terms: list of lists of non-literal factor names (label names) in the formula's own term order."""
    out = []
    for factors in formula_terms:
        out += w.full_labels(list(factors))
    return out


def parsed_term_factors(formula: str):
    """Term order and factor order as the library itself parses the formula (C01 is responsible for that part)."""
    from formulaic import Formula

    f = Formula(formula)
    out = []
    for term in f:
        fs = [fac.expr for fac in term.factors if fac.eval_method.value != "literal"]
        lits = [fac.expr for fac in term.factors if fac.eval_method.value == "literal"]
        if not fs and lits == ["1"]:
            out.append([])
        else:
            out.append(fs)
    return out


def matrix_cells(mm, output: str):
    """(labels, rows x cols cell list) of a model matrix of any dense output type."""
    labels = list(mm.model_spec.column_names)
    arr = numpy.asarray(mm, dtype=object)
    if arr.ndim == 1:
        arr = arr.reshape((-1, len(labels)))
    return labels, arr
