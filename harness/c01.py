"""C01 — formula strings denote the documented Wilkinson term algebra (Engine CH + independent reference reading of grammar.md)."""
import ast
import itertools
import os
import re

from ch import runner
from lib.common import Check

from . import ch_c01
from . import parser_common as pc


def _doc_table_check(check: Check):
    """Ground: the real operator table against the documented one (symbol, arity, relative precedence blocks, associativity)."""
    from formulaic.parser import DefaultOperatorResolver

    doc_blocks = [["**", "^"], [":"], ["*", "/", "in"], ["+", "-"], ["|"], ["~"]]  # grammar.md, high to low precedence
    ops = DefaultOperatorResolver().operators
    by = {}
    for o in ops:
        by.setdefault(o.symbol, []).append(o)
    ok = True
    prev = None
    for block in doc_blocks:
        precs = {o.precedence for s in block for o in by.get(s, [])}
        if len(precs) != 1 or any(s not in by for s in block):
            ok = False
            break
        p = precs.pop()
        if prev is not None and not p < prev:
            ok = False
        prev = p
    arity = {"**": {2}, "^": {2}, ":": {2}, "*": {2}, "/": {2}, "in": {2}, "+": {1, 2}, "-": {1, 2}, "|": {2}, "~": {1, 2}, ".": {0}}
    for s, ar in arity.items():
        if {o.arity for o in by.get(s, [])} != ar:
            ok = False
    for s in ("+", "-", "*", "/", "in", ":"):
        if any(o.arity == 2 and o.associativity.value != "left" for o in by[s]):
            ok = False
    check.obligation("operator table == grammar.md (ground)", "ground" if ok else "refuted")
    if not ok:
        check.violation("operator-table", "DefaultOperatorResolver.operators differs from the operator table in grammar.md (arity / precedence blocks / associativity)",
                        {"kind": "c01_table"})


def _oracle_vs_repo_tests(check: Check):
    """The reference reading must agree with the repo's own passing expectations (tests/parser/test_parser.py FORMULA_TO_TERMS)."""
    from oracle import wilkinson_ref as W

    src = open("/repo/tests/parser/test_parser.py").read()
    m = re.search(r"^FORMULA_TO_TERMS = (\{.*?^\})", src, flags=re.S | re.M)
    table = ast.literal_eval(m.group(1))
    n = bad = 0
    for formula, want in table.items():
        syms = formula.replace("(", " ( ").replace(")", " ) ").split()
        if "." in syms or any(s not in pc.SIGMA for s in syms) or not all(re.fullmatch(r"[\w.()+\-*/:^~|% ]*", formula) for _ in [0]):
            continue
        if " ".join(syms).replace(" ", "") != formula.replace(" ", ""):
            continue
        got = W.evaluate(syms, available=pc.AVAILABLE)
        if got in (W.DONTCARE, W.REJECT):
            continue
        n += 1

        def conv(o):
            if isinstance(o, dict):
                return {k: conv(v) for k, v in o.items()}
            if isinstance(o, tuple):
                return tuple(conv(v) for v in o)
            return [tuple(sorted(t.split(":"))) for t in o]

        w = conv(want)
        if not isinstance(w, dict):
            w = {"root": w}
        srt = lambda o: {k: srt(v) for k, v in o.items()} if isinstance(o, dict) else (tuple(srt(v) for v in o) if isinstance(o, tuple) else sorted(o))
        if srt(got) != srt(w):
            bad += 1
            check.harness_error(f"reference reading disagrees with the repository's own test expectation for {formula!r}: {got} vs {w}")
    check.obligation("reference == FORMULA_TO_TERMS of the test suite (oracle validation)", "ground", n - bad)
    check.info["oracle_validated_against_repo_tests"] = n


def run(check: Check) -> None:
    thorough = check.tier == "thorough"
    check.info["explanation"] = (
        "Engine CH. (1) tokens_to_ast with operators of SYMBOLIC integer precedence / associativity equals a precedence-climbing reference "
        "(precedences unbounded). (2) operator table vs grammar.md (ground). (3) DefaultOperatorResolver.resolve over symbolic operator strings "
        "(sign-run parity collapsing). (4) every space-joined stream of <=K symbols over a 19-symbol alphabet (indices symbolic, realised by branching: "
        "bounded exhaustive exploration with the solver as book-keeper) parsed by the real DefaultFormulaParser / Formula.from_spec and compared with "
        "an independent recursive-descent reading of grammar.md (accept/reject, nested shape, ordered term lists; documented-silent constructs are "
        "DONTCARE and counted). (5) documented identities and specification forms over all coincidence patterns of x,y,z in {a,b,c}."
    )
    check.info["rule"] = "case = (harness function, shard); every path of a stream harness is one concrete formula"
    check.bounds.update({"alphabet": pc.SIGMA, "K_default_parser": "3 (quick) / 4 over 16 symbols + 5 over 9 symbols (thorough)",
                         "K_other_configs": "2 (quick) / 3 (thorough)", "configs": "intercept on/off x 8 feature-flag subsets",
                         "sign_run_length": 3 if not thorough else 5, "available_variables": pc.AVAILABLE})
    check.out_of_scope += ["formulas longer than K tokens / deeper nesting than K permits", "function-call and quoted factors (single tokens here; lexing is C15)",
                           "constructs the documentation is silent about (DONTCARE classes listed in oracle/wilkinson_ref.py)"]
    _doc_table_check(check)
    _oracle_vs_repo_tests(check)
    # native cross-validation of the whole enumerated space (CH-enum costs seconds natively)
    bad = []
    nn = 0
    for k in range(0, 4):
        for syms in itertools.product(range(19), repeat=k):
            nn += 1
            v, d = pc.compare([pc.SIGMA[i] for i in syms], available=pc.AVAILABLE)
            if v not in ("agree", "dontcare"):
                bad.append((syms, v, d))
    for i in range(len(ch_c01.LHS_T)):
        for j in range(len(ch_c01.RHS_T)):
            for ii in (True, False):
                nn += 1
                syms = ch_c01.LHS_T[i].split(" ") + ["~"] + ch_c01.RHS_T[j].split(" ")
                v, d = pc.compare(syms, include_intercept=ii, available=pc.AVAILABLE)
                if v not in ("agree", "dontcare"):
                    check.violation(f"{v}::{' '.join(syms)}", f"{v}: formula {' '.join(syms)!r} (include_intercept={ii}): {d}",
                                    {"kind": "ch_native", "module": "ch_c01", "function": "sides", "call": {"args": [i, j, ii], "kwargs": {}}})
    # deep streams (nesting <= 4, up to 25 symbols) generated from the grammar, each with one single-symbol mutation: the same
    # comparison with the reference reading, natively (ground companion; the symbolic streams stop at K = 3 / 5)
    deep = pc.random_streams(check.seed * 7 + 3, 20000 if thorough else 1500)
    configs = [(True, ("TWOSIDED", "MULTIPART")), (False, ("TWOSIDED", "MULTIPART")), (True, ("TWOSIDED",)), (True, ())]
    nd = ndc = 0
    deep_bad = []
    for k, syms in enumerate(deep):
        ii, fl = configs[0] if k % 3 else configs[(k // 3) % len(configs)]
        v, d = pc.compare(syms, include_intercept=ii, flags=fl, available=pc.AVAILABLE, tie_order=False)
        nd += 1
        ndc += v == "dontcare"
        if v not in ("agree", "dontcare"):
            deep_bad.append((syms, ii, fl, v, d))
    check.obligation("streams.deep/ground", "ground", nd - len(deep_bad))
    check.info["deep_streams"] = {"generated": nd, "dontcare": ndc}
    for syms, ii, fl, v, d in deep_bad[:10]:
        check.violation(f"{v}::{' '.join(syms)}", f"{v}: formula {' '.join(syms)!r} (include_intercept={ii}, flags={list(fl)}): {d}",
                        {"kind": "c01_stream", "symbols": syms, "ii": ii, "flags": list(fl)})
    # numeric scalings (`2:a`): a scaling is no factor of the interaction, so it never moves a term in the final ordering (ground)
    sc_bad = []
    nsc = 0
    for text, icpt, expected in pc.scaled_cases(check.seed * 11 + 5, 3000 if thorough else 400):
        for route in ("string", "rhs", "part"):
            nsc += 1
            try:
                msg = pc.scaled_check(text, expected, route)
            except Exception as e:
                msg = f"scaled-term-raised: formula {text!r} ({route}): {type(e).__name__}: {str(e)[:100]}"
            if msg:
                sc_bad.append((text, expected, route, msg))
    check.obligation("scaled-terms.order/ground", "ground", nsc - len(sc_bad))
    for text, expected, route, msg in sc_bad[:5]:
        check.obligation("scaled-terms.order/ground", "refuted")
        check.violation(f"{msg.split(':', 1)[0]}::{text}::{route}", msg, {"kind": "c01_scaled", "text": text, "expected": expected, "route": route})
    for i, qa, y, z in itertools.product(range(40), range(len(ch_c01.QUOTED_ATOMS)), range(3), range(3)):
        ch_c01.__dict__["__SHARD__"] = i
        nn += 1
        try:
            okq = ch_c01.quoted_atom(i, qa, y, z)
        except Exception:
            okq = False
        if okq is not True:
            call = {"args": [i, qa, y, z], "kwargs": {}}
            check.violation(f"quoted-atom::{ch_c01.QUOTED_ATOMS[qa]}", ch_c01.explain("quoted_atom", call), {"kind": "ch_native", "module": "ch_c01", "function": "quoted_atom", "call": call, "globals": {"__SHARD__": i}})
            break
    check.obligation("streams/native cross-validation (K<=3)", "ground", nn - len(bad))
    for syms, v, d in bad[:20]:
        key = f"{v}::{' '.join(pc.SIGMA[i] for i in syms)}"
        check.violation(key, f"{v}: formula {' '.join(pc.SIGMA[i] for i in syms)!r}: {d}",
                        {"kind": "ch_native", "module": "ch_c01", "function": f"stream{len(syms)}" if len(syms) != 3 else "stream3", "call": {"args": list(syms) + ([0] if len(syms) < 3 else []), "kwargs": {}}})
    fns = {
        "shunting": [None], "shunting_paren": [None],
        "signrun": [{"SHARD": c, "N": (5 if thorough else 3)} for c in range(8)],
        "identity": list(range(43)), "forms": [None], "sides": list(range(10)),
        "quoted_atom": list(range(40)) if thorough else [0, 1, 3, 8, 12, 23, 26, 27, 29, 37],
        "stream1": list(range(16)), "stream2": list(range(16)),
        "stream3": list(range(19)),
    }
    if thorough:
        fns["stream4"] = list(range(256))
        fns["stream5"] = list(range(81))
    for f in fns:
        check.functions.add(f"harness.ch_c01:{f}")
    check.functions.update({"formulaic.parser.parser:DefaultFormulaParser.get_tokens_from_formula/get_terms_from_ast", "formulaic.parser.parser:DefaultOperatorResolver.operators/resolve",
                            "formulaic.parser.algos.tokens_to_ast:tokens_to_ast", "formulaic.parser.algos.tokenize:tokenize", "formulaic.parser.utils:insert_tokens_after/replace_tokens/merge_operator_tokens",
                            "formulaic.parser.types.term:Term", "formulaic.formula:Formula.from_spec/SimpleFormula._reorder/StructuredFormula"})

    def keyer(fname, call):
        try:
            return ch_c01.explain(fname, call).split(":", 1)[0] + "::" + fname + str(call["args"])
        except Exception:
            return f"{fname}{call}"

    runner.run_module(check, "ch_c01", fns, pct=(900 if thorough else 110), ppt=20, group="algebra", keyer=keyer)
    if thorough:
        shards = [{"SHARD": k0, "CFG": cfg} for cfg in range(1, 16) for k0 in range(19)]
        runner.run_module(check, "ch_c01", {"stream3cfg": shards}, pct=600, ppt=20, group="algebra", keyer=keyer, twins=False)
    check.sample({"harness": "stream3", "input": "k0,k1,k2 symbolic indices into the 19-symbol alphabet", "example_path": "a : b  ->  library {root: [1, a:b]} == reference"})
    check.sample({"harness": "shunting", "input": "p1,p2,p3: symbolic ints (unbounded), l1..l3 symbolic bools, 9 operator sequences"})
