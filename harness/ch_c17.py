"""C17 — name resolution order, '.' expansion (CrossHair harnesses) and required-variable necessity/sufficiency (native, engine-free)."""
from formulaic.errors import FactorEvaluationError
from formulaic.parser import DefaultFormulaParser

for _k, _v in (("__SHARD__", 0),):
    globals().setdefault(_k, _v)


def _pick(x, lo, hi):
    for v in range(lo, hi):
        if x == v:
            return v
    return hi


_MATCLS = None


def _matcls():
    global _MATCLS
    if _MATCLS is None:
        from interface_meta import override

        from formulaic.materializers.base import FormulaMaterializer

        class _Plain(FormulaMaterializer):
            REGISTER_NAME = None

            @override
            def _init(self):
                pass

            @override
            def _encode_constant(self, value, metadata, encoder_state, spec, drop_rows):
                raise NotImplementedError

            @override
            def _encode_categorical(self, values, metadata, encoder_state, spec, drop_rows, reduced_rank=False):
                raise NotImplementedError

            @override
            def _encode_numerical(self, values, metadata, encoder_state, spec, drop_rows):
                raise NotImplementedError

            @override
            def _combine_columns(self, cols, spec, drop_rows):
                raise NotImplementedError

        _MATCLS = _Plain
    return _MATCLS


NAMES = ["x", "log", "q"]


def resolve(k: int, d0: bool, d1: bool, d2: bool, c0: bool, c1: bool, c2: bool) -> bool:
    """
    pre: 0 <= k < 3 and k == __SHARD__
    post: _
    """
    from formulaic.transforms import TRANSFORMS

    k = _pick(k, 0, 2)
    data = {n: 100 + i for i, (n, on) in enumerate(zip(NAMES, (d0, d1, d2))) if on}
    ctx = {n: 200 + i for i, (n, on) in enumerate(zip(NAMES, (c0, c1, c2))) if on}
    dcopy, ccopy = dict(data), dict(ctx)
    m = _matcls()(data, ctx)
    name = NAMES[k]
    if name in data:
        want = (data[name], "data")
    elif name in ctx:
        want = (ctx[name], "context")
    elif name in TRANSFORMS:
        want = (TRANSFORMS[name], "transforms")
    else:
        want = None
    try:
        value, variables = m._lookup(name)
        got = (value, next(iter(variables)).source)
    except NameError:
        got = None
    if want is None or got is None:
        if want is not got:
            return False
    elif not (got[0] is want[0] or got[0] == want[0]) or got[1] != want[1]:
        return False
    # the same through the factor-evaluation path (bare name as a Python expression)
    from formulaic.model_spec import ModelSpec

    spec = ModelSpec(formula=[])
    try:
        v2, vars2 = m._evaluate(name, None, spec)
        got2 = (v2, {str(v): v.source for v in vars2}.get(name))
    except NameError:
        got2 = None
    if want is None or got2 is None:
        if want is not got2:
            return False
    elif not (got2[0] is want[0] or got2[0] == want[0]) or got2[1] != want[1]:
        return False
    return data == dcopy and ctx == ccopy  # the supplied mappings are never written to


AVAIL_MENU = [["y", "a", "b"], ["b", "a", "y"], ["a"], ["c", "b", "a", "y"], [], ["y"], ["b", "y", "c"], ["a", "c"],
              # column names that are not identifiers, that read like an expression, or that shadow a built-in transform
              ["body mass", "a", "log", "y"], ["a-b", "a", "b", "y", "scale"]]
LHS_MENU = [None, "y", "y + a", "a", "b + y", "c", "`body mass`", "log", "`a-b`", "`a-b` + scale",
            # Python code on the left-hand side: the columns it reads are used, however they are written
            "np.log(`body mass`)", "np.abs(y.values) + {a + 1}", "I(`a-b` * b)"]
LHS_USED = {"np.log(`body mass`)": {"body mass"}, "np.abs(y.values) + {a + 1}": {"y", "a"}, "I(`a-b` * b)": {"a-b", "b"}}


def dot_expand(av: int, lh: int, ii: bool, extra: int) -> bool:
    """
    pre: 0 <= av < 10 and 0 <= lh < 13 and 0 <= extra < 3 and av == __SHARD__
    post: _
    """
    av, lh, extra = _pick(av, 0, 9), _pick(lh, 0, 12), _pick(extra, 0, 2)
    ii = bool(ii)
    available = AVAIL_MENU[av]
    lhs = LHS_MENU[lh]
    rhs = [".", ". + a", "b + ."][extra]
    formula = rhs if lhs is None else f"{lhs} ~ {rhs}"
    used = set() if lhs is None else LHS_USED[lhs] if lhs in LHS_USED else {t.strip().strip("`") for t in lhs.split("+")}
    want = [v for v in available if v not in used]
    if extra == 1:
        want = want + (["a"] if "a" not in want else [])
    elif extra == 2:
        want = ["b"] + [v for v in want if v != "b"]
    if ii:
        want = ["1"] + want
    p = DefaultFormulaParser(include_intercept=ii)
    terms = p.get_terms(formula, context={"__formulaic_variables_available__": list(available)})
    part = terms if lhs is None else terms.rhs
    part = part.root if hasattr(part, "_structure") else part
    got = [":".join(f.expr for f in t.factors) for t in part]
    if extra == 1 and "a" in want[:-1]:
        pass
    return got == want


def explain(fname, call):
    a = call["args"] if call else []
    if fname == "resolve":
        return f"resolution-order: name {NAMES[a[0]]!r} with data flags {a[1:4]} and context flags {a[4:7]}"
    if fname == "dot_expand":
        return f"dot-expansion: available {AVAIL_MENU[a[0]]} lhs {LHS_MENU[a[1]]!r} include_intercept={a[2]} rhs #{a[3]}"
    return f"{fname} fails for {a}"
