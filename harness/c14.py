"""C14 — any input string is parsed or rejected with the library's parsing error (Engine CH)."""
import itertools

from ch import runner
from lib.common import Check

from . import ch_c14


def run(check: Check) -> None:
    thorough = check.tier == "thorough"
    check.info["explanation"] = (
        "Engine CH. (a) CH-sym over ALL of Unicode: list(tokenize(s)) for every string of <= N code points returns or raises FormulaSyntaxError. "
        "(b) CH-enum: Formula.from_spec over space-joined streams from a 30-symbol alphabet (operators, brackets of all kinds, quotes, braces, "
        "back-ticks, call openers): the outcome is a formula, a FormulaParsingError, or a SyntaxError only when an embedded Python fragment is "
        "itself invalid; no other exception type escapes. (c) feature flags: accepted under a flag subset F => accepted under ALL with the same "
        "formula and the AST under ALL contains no operator F disables. (d) every single-token edit (replace / insert / delete) of 20 well-formed seeds."
    )
    check.info["rule"] = "case = (harness, shard); each path of an enumerating harness is one concrete input string"
    check.bounds.update({"tokenizer_string_length": 3 if thorough else 2, "stream_length": "2 over 33 symbols + 3 over a 16-symbol cut (quick); 3 over 20 / 33 and 4 over 20 (thorough)",
                         "flag_streams": "3 tokens over 7 symbols x 8 flag subsets (quick) / 4 tokens over 8 (thorough)", "edits": "1 (quick) / 2 replacements (thorough)", "seeds": "10 (quick) / 20 (thorough)"})
    check.out_of_scope += ["strings outside the length / edit-distance bounds", "termination is 'terminates within the per-path timeout on every explored path'",
                           "full-charset claims beyond the tokenizer (ast.parse realises the string)"]
    # native cross-validation over the same spaces
    bad = []
    n = 0
    for k, A in ((1, ch_c14.SIGMA_ERR), (2, ch_c14.SIGMA_ERR), (3, ch_c14.CUT20 if thorough else ch_c14.CUT20[:16])):
        for syms in itertools.product(range(len(A)), repeat=k):
            n += 1
            s = " ".join(A[i] for i in syms)
            for ii in ((True, False) if k == 1 else (True,)):
                c = ch_c14.classify(s, include_intercept=ii)
                if c.startswith("escape"):
                    bad.append((s, c, {"flags": ["TWOSIDED", "MULTIPART"], "ii": ii}))
    for i, c, fl, ii in itertools.product(range(len(ch_c14.PYFRAGS)), range(len(ch_c14.PYCTX)), range(len(ch_c14.PYFLAGS)), (True, False)):
        n += 1
        s = ch_c14.PYCTX[c].replace("{}", ch_c14.PYFRAGS[i])
        r = ch_c14.classify(s, ch_c14.PYFLAGS[fl], ii)
        if r.startswith("escape") or r == "python-syntax":
            bad.append((s, r, {"flags": list(ch_c14.PYFLAGS[fl]), "ii": ii, "valid_python": True}))
    # parser objects with a history (native, the whole space the CrossHair harness `flag_switch` explores)
    for f1, f2, w in itertools.product(range(8), range(8), range(4)):
        ch_c14.__dict__.update({"__SHARD__": f2, "__F1__": f1, "__WN__": 4, "__M2__": 7})
        for ks in itertools.product(range(7), repeat=3):
            n += 1
            try:
                okh = ch_c14.flag_switch(f1, f2, w, *ks)
            except Exception:
                okh = False
            if okh is not True:
                sfs = " ".join(ch_c14.FLAG_ALPHA[k] for k in ks)
                bad.append((sfs, "parser-history", {"history": [f1, f2, w, list(ks)]}))
    for s_, msg in ch_c14.parser_copies_problems():
        n += 1
        bad.append((s_, "parser-copy", {"message": msg}))
    # native fuzz companion (ground): character-level mutations of grammar-derived formulas under rotating flag subsets; every string
    # gets a verdict (formula / parsing error) within 10 s - a parse that does not come back is neither
    import signal

    class _Slow(BaseException):  # not an Exception: classify() must not mistake it for something the parser raised
        pass

    def _alarm(*a):
        raise _Slow()

    old_handler = signal.signal(signal.SIGALRM, _alarm)
    fl_rot = [("TWOSIDED", "MULTIPART"), (), ("TWOSIDED", "MULTIPART", "MULTISTAGE"), ("MULTIPART",)]
    fuzz = ch_c14.fuzz_strings(check.seed * 5 + 2, 60000 if thorough else 6000) + ["(a + b) ** 200", "y ~ (.) ^ 132", "(a + b + c) ** 64 | (b) ** 999999"]
    nf = 0
    try:
        for k, s in enumerate(fuzz):
            fl, ii = fl_rot[k % 4], k % 5 != 0
            signal.alarm(10)
            try:
                c = ch_c14.classify(s, fl, ii)
            except _Slow:
                c = "no-verdict-within-10s"
            finally:
                signal.alarm(0)
            nf += 1
            if c.startswith("escape") or c.startswith("no-verdict"):
                bad.append((s, c, {"flags": list(fl), "ii": ii}))
    finally:
        signal.signal(signal.SIGALRM, old_handler)
    n += nf
    check.info["fuzz_strings"] = nf
    check.obligation("streams/native cross-validation", "ground", n - len(bad))
    for s, c, extra in bad[:20]:
        if c == "parser-copy":
            check.violation(f"parser-copy::{s}", extra["message"], {"kind": "c14_parser_copies"})
            continue
        if c == "parser-history":
            f1, f2, w, ks = extra["history"]
            call = {"args": [f1, f2, w] + ks, "kwargs": {}}
            check.violation(f"parser-history::{s}", ch_c14.explain("flag_switch", call), {"kind": "ch_native", "module": "ch_c14", "function": "flag_switch", "call": call, "globals": {"__SHARD__": f2, "__F1__": f1, "__WN__": 4, "__M2__": 7}})
            continue
        check.violation(f"{c}::{s}", f"{c}: formula {s!r} ({extra})", {"kind": "c14_string", "s": s, **extra})
    fns = {
        "tokenizer_total": [{"N": 3 if thorough else 2}],
        "err1": [None],
        "err2": list(range(33)),
        "err3": [{"SHARD": k, "M": (20 if thorough else 16)} for k in range(20 if thorough else 16)],
        "flags3": [{"SHARD": f, "N": (8 if thorough else 1), "M": (8 if thorough else 7)} for f in range(8)],
        "edit1": list(range(20 if thorough else 10)),
        "pyfrag": list(range(25)) if thorough else [0, 2, 3, 4, 12, 17, 18, 24],
        "flag_switch": ([{"SHARD": f2, "F1": f1, "WN": 3, "M2": 5} for f2 in range(8) for f1 in (0, 3, 5, 7)] if thorough
                        else [{"SHARD": f2, "F1": f1, "WN": 2, "M2": 4} for f2, f1 in ((0, 7), (3, 0), (7, 0), (5, 2))]),
    }
    if thorough:
        fns["err3full"] = list(range(33))
        fns["err4"] = list(range(400))
    for f in fns:
        check.functions.add(f"harness.ch_c14:{f}")
    check.functions.update({"formulaic.parser.algos.tokenize:tokenize", "formulaic.parser.algos.tokens_to_ast:tokens_to_ast", "formulaic.parser.algos.sanitize_tokens:sanitize_tokens",
                            "formulaic.parser.parser:DefaultFormulaParser", "formulaic.utils.code:format_expr/sanitize_variable_names", "formulaic.formula:Formula.from_spec"})

    def keyer(fname, call):
        try:
            e = ch_c14.explain(fname, call)
            return e.split(" formula ", 1)[0].rstrip(":") + "::" + (e.split(" formula ", 1)[1] if " formula " in e else fname + str(call["args"]))
        except Exception:
            return f"{fname}{call}"

    runner.run_module(check, "ch_c14", fns, pct=(600 if thorough else 110), ppt=20, group="parse-or-reject", keyer=keyer)
    if thorough:
        shards = [{"SEED": sd, "SHARD": p1} for sd in range(20) for p1 in range(7)]
        runner.run_module(check, "ch_c14", {"edit2": shards}, pct=600, ppt=20, group="parse-or-reject", keyer=keyer, twins=False)
    check.sample({"harness": "err3", "example_path": "'( a ]' -> FormulaSyntaxError (allowed)"})
    check.sample({"harness": "tokenizer_total", "input": "s: symbolic str over all of Unicode, len <= N"})
