"""C07 — multi-part formulas give row-aligned parts equal to separate builds (hybrid SR)."""

from __future__ import annotations

import itertools
import random

import numpy
import z3

from formulaic import Formula, model_matrix
from lib.common import Check
from lib.parallel import run_cases
from sr import rig
from sr.pipeline import symbolic_pipeline
from sr.symreal import conj, lift, model_value, same_cell, sym_vector

from . import c07_common as cc
from . import replays


def _case(check: Check, cfg, record=False):
    n = cc.N
    T = [z3.Real(f"t{k}") for k in range(n)]

    def fn():
        t, a, b = sym_vector("t", n), sym_vector("a", n), sym_vector("b", n)
        with symbolic_pipeline():
            return cc.check_config(cfg, {"t": t, "a": a, "b": b}, same=same_cell, tag_eq=lambda cell, k: lift(cell) == T[k], symbolic=True)

    def claims(res):
        problems, cl = res
        for tag, msg in problems:
            p = {"kind": "c07_config", "cfg": cfg, "tag": tag}
            bad = replays.run(p)
            if bad:
                check.violation(f"structured::{cfg['spec_id']}::{tag}", msg, p)
            else:
                check.nonreproducing(f"structured config {cfg}: {tag}: {msg}")
        yield "shape / rows / names (ground)", True
        for label, c in cl:
            yield label, c

    def rep(model, label):
        vals = {nm: [model_value(model, z3.Real(f"{nm}{k}")) for k in range(n)] for nm in ("t", "a", "b")}
        for cand in ({"kind": "c07_config", "cfg": cfg, "tag": None, "values": vals}, {"kind": "c07_config", "cfg": cfg, "tag": None}):
            bad = replays.run(cand)
            if bad:
                return (f"structured::{cfg['spec_id']}", bad, cand)
        return None

    rig.run_sym(check, "structured", fn, claims, replay=rep, timeout_ms=10000, case_id=repr(sorted(cfg.items())), sample=cfg, record=record)
    # ground companion (NOT solver-decided): the same oracle natively through sparse output and the narwhals materializer
    for extra in ({"output": "sparse"}, {"output": "numpy", "materializer": "narwhals"}, {"output": "sparse", "materializer": "narwhals"}):
        if "materializer" in extra and len(cc.SPECS[cfg["spec_id"]]) > 3 and cc.SPECS[cfg["spec_id"]][3]:
            continue  # lag() has no implementation for narwhals series (NotImplementedError by design)
        p = {"kind": "c07_config", "cfg": {**cfg, **extra}, "tag": None}
        try:
            bad = replays.run(p)
        except Exception as e:  # the library raising on a legal structured build is a failed property, not a harness problem
            bad = f"raises: {type(e).__name__}: {str(e)[:160]}"
        check.obligation("structured.other_branches/ground", "refuted" if bad else "ground")
        if bad:
            check.violation(f"structured::{cfg['spec_id']}::{'narwhals,' if 'materializer' in extra else ''}{extra['output']}::{bad.split(':', 1)[0]}", bad, p)


def run(check: Check) -> None:
    thorough = check.tier == "thorough"
    rng = random.Random(check.seed)
    check.info["explanation"] = (
        "Hybrid SR: structured formulas (~, |, keyword and tuple nestings two deep) are materialised on data whose numeric columns "
        "(tag t, a, b) are symbolic and whose nullable columns z, w, A carry enumerated null layouts spread over different parts. "
        "Ground: result and .model_spec have the formula's nested shape, all parts keep the same rows. Solver: every row of every "
        "part carrying t IS the expected tag; every part equals, cell by cell for all values, the matrix built from that part's terms "
        "alone with the jointly dropped rows as drop_rows, and the matrix its own spec regenerates."
    )
    check.info["rule"] = "configuration = structured spec x null layout over (z, w, A) x index kind x output"
    check.bounds.update({"rows": cc.N, "specs": len(cc.SPECS), "null_sets_per_variable": len(cc.NULL_SETS)})
    check.out_of_scope += ["nesting deeper than two levels", "multistage '[ ~ ]' formulas", "sparse output and the narwhals materializer are NOT solver-decided: the same oracle runs natively on them at one generic point per configuration (group structured.other_branches/ground)"]
    cfgs = []
    layouts = list(itertools.product(range(len(cc.NULL_SETS)), repeat=3))
    for sid in range(len(cc.SPECS)):
        ls = layouts if thorough else rng.sample(layouts, 10) + [(0, 0, 0), (1, 2, 0), (3, 1, 2)]
        for (zi, wi, ai) in ls:
            for idx, out in (itertools.product(("default", "string", "nonunique"), ("pandas", "numpy")) if thorough else [(rng.choice(("default", "string", "nonunique")), rng.choice(("pandas", "numpy")))]):
                cfgs.append({"spec_id": sid, "z": zi, "w": wi, "A": ai, "index": idx, "output": out})
    run_cases(check, cfgs, _case)
