"""C03 — rank reduction yields a structurally full-rank matrix with unchanged span (real pipeline + QF_LRA over the coefficient vector)."""

from __future__ import annotations

import itertools
import random
import time
from fractions import Fraction

import numpy
import pandas
import z3

from formulaic import Formula, model_matrix
from lib.common import Check, FunctionRecorder
from lib.parallel import run_cases
from sr import symreal

from . import replays

LEVELS = {"A": ["p", "q"], "B": ["r", "s", "t"], "D": ["u", "v"], "E": ["w"], "Z": [0, 1, 2]}  # Z: integer labels, the reference level is the FALSY label 0
REPL = 3
EPS = Fraction(1, 10**8)


def design(point: int):
    rows = [(a, b, c) for a in LEVELS["A"] for b in LEVELS["B"] for c in LEVELS["D"]] * REPL
    n = len(rows)
    num = [((37 * (i + 1) + 101 * point) % 53) / 4.0 + 0.25 + point for i in range(n)]
    return pandas.DataFrame({
        "A": pandas.Categorical([r[0] for r in rows], categories=LEVELS["A"]),
        "B": pandas.Categorical([r[1] for r in rows], categories=LEVELS["B"]),
        "D": pandas.Categorical([r[2] for r in rows], categories=LEVELS["D"]),
        "E": pandas.Categorical(["w"] * n, categories=LEVELS["E"]),  # "all level counts >= 1": a factor with a single level
        "Z": pandas.Categorical([(i * 5 + i // 3) % 3 for i in range(n)], categories=LEVELS["Z"]),
        "a": numpy.array(num),
    })


def q(v) -> z3.ArithRef:
    f = Fraction(float(v))
    return z3.RealVal(f"{f.numerator}/{f.denominator}")


def _solver():
    s = z3.SolverFor("QF_LRA")
    s.set("timeout", 20000)
    return s


def independent(M: numpy.ndarray) -> str:
    """unsat of: exists c, max|c_j| = 1, |M c|_i <= eps  ->  'independent'."""
    n, k = M.shape
    if k == 0:
        return "independent"
    s = _solver()
    c = [z3.Real(f"c{j}") for j in range(k)]
    for cj in c:
        s.add(cj <= 1, cj >= -1)
    s.add(z3.Or(*[cj == 1 for cj in c]))
    eps = z3.RealVal(f"{EPS.numerator}/{EPS.denominator}")
    for i in range(n):
        row = z3.Sum([q(M[i, j]) * c[j] for j in range(k) if M[i, j] != 0]) if any(M[i, j] != 0 for j in range(k)) else z3.RealVal(0)
        s.add(row <= eps, row >= -eps)
    r = symreal._timed_check(s, hard_ms=25000)
    return {"unsat": "independent", "sat": "dependent"}.get(r, "unknown")


def in_span(M: numpy.ndarray, f: numpy.ndarray) -> str:
    """sat of: exists y, |M y - f|_i <= tol -> 'inside'."""
    n, k = M.shape
    s = _solver()
    y = [z3.Real(f"y{j}") for j in range(k)]
    tol = z3.RealVal("1/1000000")
    for i in range(n):
        row = z3.Sum([q(M[i, j]) * y[j] for j in range(k) if M[i, j] != 0] + [z3.RealVal(0)])
        d = row - q(f[i])
        s.add(d <= tol, d >= -tol)
    r = symreal._timed_check(s, hard_ms=25000)
    return {"sat": "inside", "unsat": "outside"}.get(r, "unknown")


def build(terms, intercept, cluster, point, contrast=None):
    df = design(point)
    tl = list(terms)
    if contrast:
        tl = [":".join(f"C({f}, contr.{contrast})" if f in LEVELS else f for f in t.split(":")) for t in tl]
    spec = (["1"] if intercept else []) + tl
    F = Formula(spec, _ordering="none")
    kw = dict(cluster_by="numerical_factors") if cluster else {}
    R = model_matrix(F, df, ensure_full_rank=True, output="numpy", **kw)
    Fm = model_matrix(F, df, ensure_full_rank=False, output="numpy", **kw)
    return numpy.asarray(R, dtype=float), numpy.asarray(Fm, dtype=float), list(R.model_spec.column_names)


def analyse(terms, intercept, cluster, point, contrast=None):
    """-> list of (tag, message); obligations counted by caller."""
    R, Fm, names = build(terms, intercept, cluster, point, contrast)
    out = []
    st = independent(R)
    obligations = [("columns of the reduced matrix are linearly independent", st in ("independent",), st)]
    if st == "dependent":
        out.append(("rank-deficient", f"reduced matrix columns {names} are linearly dependent"))
    # span(F) within span(R): every column of the full matrix
    bad_cols = []
    unk = 0
    for j in range(Fm.shape[1]):
        r = in_span(R, Fm[:, j])
        if r == "outside":
            bad_cols.append(j)
        elif r == "unknown":
            unk += 1
    obligations.append(("every full-rank-disabled column lies in the span of the reduced matrix", not bad_cols and not unk, "unknown" if unk else ("outside" if bad_cols else "inside")))
    if bad_cols:
        out.append(("span-shrunk", f"{len(bad_cols)} column(s) of the unreduced matrix are outside the span of the reduced one (reduced columns: {names})"))
    bad_cols = []
    unk = 0
    for j in range(R.shape[1]):
        r = in_span(Fm, R[:, j])
        if r == "outside":
            bad_cols.append(names[j])
        elif r == "unknown":
            unk += 1
    obligations.append(("every reduced column lies in the span of the unreduced matrix", not bad_cols and not unk, "unknown" if unk else ("outside" if bad_cols else "inside")))
    if bad_cols:
        out.append(("span-grown", f"reduced columns {bad_cols} are outside the span of the unreduced matrix"))
    return out, obligations


def _case(check: Check, case, record=False):
    terms, intercept, cluster, contrast = case
    ident = f"{'1+' if intercept else ''}{'+'.join(terms)} cluster={cluster} contrast={contrast}"
    try:
        if record:
            with FunctionRecorder(check.functions):
                found, obl = analyse(terms, intercept, cluster, 0, contrast)
        else:
            found, obl = analyse(terms, intercept, cluster, 0, contrast)
    except Exception as e:
        p = {"kind": "c03_family", "terms": list(terms), "intercept": intercept, "cluster": cluster, "contrast": contrast}
        bad = replays.run(p)
        if bad:
            check.violation(f"rank::{bad.split(':', 1)[0]}", bad, p)
        else:
            check.harness_error(f"family {ident}: {type(e).__name__}: {e}")
        return
    for label, ok, st in obl:
        check.obligation("rank", "proved" if ok else ("unknown" if st == "unknown" else "refuted"))
        if st == "unknown":
            check.inconclusive_note(f"{ident}: {label}")
    check.case(ident)
    check.sample({"terms": list(terms), "intercept": intercept, "cluster_by_numerical": cluster, "contrast": contrast or "treatment", "obligations": [o[0] for o in obl]})
    if found:
        # second generic point before reporting, then the native (float rank) replay
        found2, _ = analyse(terms, intercept, cluster, 1, contrast)
        tags2 = {t for t, _ in found2}
        for tag, msg in found:
            if tag not in tags2:
                check.nonreproducing(f"{ident}: {tag} only at one generic point: {msg}")
                continue
            p = {"kind": "c03_family", "terms": list(terms), "intercept": intercept, "cluster": cluster, "contrast": contrast}
            bad = replays.run(p)
            if bad:
                check.violation(f"rank::{tag}", f"{ident}: {msg}", p)
            else:
                check.nonreproducing(f"{ident}: {tag}: {msg}")


def run(check: Check) -> None:
    thorough = check.tier == "thorough"
    rng = random.Random(check.seed)
    check.info["explanation"] = (
        "The real pipeline (contrasts, _get_scoped_terms, _simplify_scoped_terms, drop_field handling) builds the reduced matrix R and the "
        "unreduced matrix F on a fully crossed design (A:2 x B:3 x D:2 levels, replicated 3x, numeric column at a generic rational point). "
        "The universally quantified object is the coefficient vector: QF_LRA decides (exactly, on the rationals of the computed float cells, "
        "with an explicit 1e-8 margin) that no non-zero c has R.c = 0, that every column of F is in span(R) and every column of R in span(F). "
        "A deficiency must persist at a second generic point and in a native float-rank replay before it is reported."
    )
    check.info["rule"] = "case = ordered family of <=3 distinct terms over the 15 factor subsets of {A,B,D,a} x intercept x clustering x contrast"
    check.bounds.update({"terms": "<=3", "factors": 4, "levels": "2,3,2 (+ a one-level factor E in dedicated families)", "replicates": REPL, "rows": 36, "contrasts": ["treatment"] + (["sum", "helmert", "diff", "poly", "SAS"] if thorough else ["sum", "helmert"])})
    check.out_of_scope += ["> 3 terms, > 4 factors, > 3 levels", "symbolic numeric data (general position is represented by two generic rational points)"]
    factors = ["A", "B", "D", "a"]
    terms = [":".join(c) for r in range(1, 5) for c in itertools.combinations(factors, r)]
    fams = [(t,) for t in terms] + list(itertools.permutations(terms, 2))
    triples = list(itertools.permutations(terms, 3))
    rng.shuffle(triples)
    fams += triples if thorough else triples[:300]
    cases = []
    for fam in fams:
        for intercept in (True, False):
            for cluster in ((False, True) if (thorough or len(fam) < 3) else (rng.random() < 0.3,)):
                cases.append((fam, intercept, cluster, None))
    # the same families with the factors of every term written in another order (term identity must not depend on it):
    # a sub-interaction spelled 'A:B' in one term and 'B:A' inside a later, larger one
    def permuted(fam):
        out = []
        for t in fam:
            fs = t.split(":")
            rng.shuffle(fs)
            out.append(":".join(fs))
        return tuple(out)

    perm_src = [f for f in fams if len(f) >= 2 and any(":" in t for t in f)]
    rng.shuffle(perm_src)
    for fam in (perm_src if thorough else perm_src[:260]):
        pf = permuted(fam)
        if pf != fam:
            cases.append((pf, True, False, None))
            cases.append((pf, False, rng.random() < 0.5, None))
    for fam in [("A:B", "B:A:D"), ("D:A", "A:B:D"), ("a:A:B", "a:B:A:D"), ("B:A", "D", "D:B:A"), ("A:D", "B:D", "D:A:B")]:
        cases.append((fam, True, False, None))
        cases.append((fam, False, False, None))
    # a factor with ONE level (its reduced coding has no column at all): every family of <=2 terms (+ seeded triples) over {E, A, a} and {E, B}
    for fs in (["E", "A", "a"], ["E", "B"]):
        ts = [":".join(c) for r in range(1, len(fs) + 1) for c in itertools.combinations(fs, r)]
        efams = [(t,) for t in ts] + list(itertools.permutations(ts, 2))
        tri = list(itertools.permutations(ts, 3))
        rng.shuffle(tri)
        efams += tri if thorough else tri[:40]
        for fam in efams:
            if any("E" in t.split(":") for t in fam):
                cases.append((fam, True, False, None))
                cases.append((fam, False, thorough and rng.random() < 0.5, None))
    # a factor whose level LABELS are integers starting at 0 (the reference level's label is falsy): families over {Z, A, a}
    ts = [":".join(c) for r in range(1, 4) for c in itertools.combinations(["Z", "A", "a"], r)]
    zfams = [(t,) for t in ts] + list(itertools.permutations(ts, 2))
    for fam in zfams:
        if any("Z" in t.split(":") for t in fam):
            cases.append((fam, True, False, None))
            cases.append((fam, False, False, None))
    contrasts = ["sum", "helmert", "diff", "poly", "treatment"] if thorough else ["sum", "helmert"]
    two = [(t,) for t in terms] + list(itertools.permutations(terms, 2))
    for ct in contrasts:
        for fam in (two if thorough else rng.sample(two, 40)):
            if any(f in LEVELS and f not in ("E", "Z") for t in fam for f in t.split(":")):
                cases.append((fam, True, False, ct))
                if thorough:
                    cases.append((fam, False, False, ct))
    run_cases(check, cases, _case, record_first=5)
