"""C06 — missing-data policy removes exactly the right rows, by position, and reports it (hybrid SR: symbolic tag column)."""

from __future__ import annotations

import itertools
import random

import z3

from lib.common import Check
from lib.parallel import run_cases
from sr import rig
from sr.pipeline import symbolic_pipeline
from sr.symreal import lift, model_value, sym_vector

from . import na_common as na
from . import replays


def subsets(n):
    return [set(c) for r in range(n + 1) for c in itertools.combinations(range(n), r)]


def gen_configs(check: Check):
    thorough = check.tier == "thorough"
    rng = random.Random(check.seed)
    n = 4 if thorough else 3
    layouts = [(z, w) for z in subsets(n) for w in subsets(n)]
    callers = [None] + subsets(n)
    cfgs = []
    for (z, w), formula, naa in itertools.product(layouts, na.FORMULAS, ("drop", "raise", "ignore")):
        a_nulls = set(sorted(w)[:1]) if "A" in na.FORMULAS[formula] else set()
        if thorough:
            variants = [(c, e, i, o, ov) for c in rng.sample(callers, 3) for e in na.ENTRY_POINTS for i in na.INDEX_KINDS
                        for o in ("pandas", "numpy") for ov in ((False, True) if e == "ModelSpec.get_model_matrix" else (False,))]
            variants = rng.sample(variants, 24)
        else:
            variants = [(rng.choice(callers), rng.choice(na.ENTRY_POINTS), rng.choice(na.INDEX_KINDS), rng.choice(("pandas", "numpy")), rng.random() < 0.5)
                        for _ in range(6)]
        for c, e, i, o, ov in variants:
            cfgs.append({"n": n, "z_nulls": sorted(z), "w_nulls": sorted(w), "a_nulls": sorted(a_nulls), "index": i, "formula": formula,
                         "na_action": naa, "caller": None if c is None else sorted(c), "entry": e, "output": o,
                         "override": bool(ov and e == "ModelSpec.get_model_matrix")})
    # fixed core: the call sites that matter, always visited
    for e, ov, f, i in [("ModelSpec.get_model_matrix", True, "t + z", "default"), ("model_matrix", False, "t ~ z", "default"),
                        ("model_matrix", False, "t ~ z | w", "string"), ("model_matrix", False, "t + z", "nonunique"),
                        ("Formula.get_model_matrix", False, "t + hashed(A, levels=3) + z", "default"), ("materializer.get_model_matrix", False, "t + C(A) + w", "nonunique"),
                        ("model_matrix", False, "t + z:A", "unsorted"), ("model_matrix", False, "t + z", "range-offset"),
                        ("ModelSpec.get_model_matrix", False, "t ~ z | w", "range-step")]:
        for c in (None, [0], [1, 2]):
            cfgs.append({"n": n, "z_nulls": [1], "w_nulls": [2], "a_nulls": [0] if "A" in na.FORMULAS[f] else [], "index": i, "formula": f, "na_action": "drop",
                         "caller": c, "entry": e, "output": "pandas", "override": ov})
    return cfgs


def _case(check: Check, cfg, record=False):
    n = cfg["n"]
    T = [z3.Real(f"t{k}") for k in range(n)]

    def fn():
        t = sym_vector("t", n)
        with symbolic_pipeline():
            return na.check_config(cfg, t, lambda cell, k: lift(cell) == T[k], ctx_for=lambda tag: {"t": tag})

    def claims(res):
        problems, cl = res
        for tag, msg in problems:
            p = {"kind": "c06_config", "cfg": cfg, "tag": tag}
            bad = replays.run(p)
            if bad:
                check.violation(f"na::{_site(cfg)}::{tag}", msg, p)
            else:
                check.nonreproducing(f"na config {cfg}: {msg}")
        yield "policy semantics (ground: rows, index, drop set, raise)", True
        for label, c in cl:
            yield label, c

    def rep(model, label):
        p = {"kind": "c06_config", "cfg": cfg, "tag": None}
        bad = replays.run(p)
        return (f"na::{_site(cfg)}", bad, p) if bad else None

    rig.run_sym(check, "na_policy", fn, claims, replay=rep, logic="QF_LRA", timeout_ms=5000, case_id=repr(sorted(cfg.items())),
                sample=cfg, record=record)
    # ground companion (NOT solver-decided): the same policy oracle natively through what a symbolic tag cannot enter -
    # sparse output (pandas materializer) and the narwhals materializer (numpy / sparse output; narwhals frames have no index)
    import zlib

    if (cfg["output"] == "pandas" and check.tier != "thorough") or (check.tier == "thorough" and zlib.crc32(repr(sorted(cfg.items())).encode()) % 8 == 0):
        for extra in ({"output": "sparse"}, {"output": "numpy", "materializer": "narwhals"}, {"output": "sparse", "materializer": "narwhals"}):
            c2 = {**cfg, **extra}
            p = {"kind": "c06_config", "cfg": c2, "tag": None}
            bad = replays.run(p)
            check.obligation("na_policy.other_branches/ground", "refuted" if bad else "ground")
            if bad:
                cls = "narwhals," if extra.get("materializer") else ""
                cls += f"output={extra['output']}," + _site(cfg)
                if extra["output"] == "sparse" and "f" in na.FORMULAS[cfg["formula"]] and cfg["w_nulls"] and cfg["na_action"] == "ignore":
                    cls = "sparse output,nullable boolean column holding NA,na_action=ignore"
                check.violation(f"na::{cls}::{bad.split(':', 1)[0]}", bad, p)


def _site(cfg):
    """Call-site class of a configuration (used in finding keys): NOT derived from the failure."""
    return f"{cfg['entry']}{'+override' if cfg['override'] else ''},{'structured' if '~' in cfg['formula'] else 'simple'},index={cfg['index']}" + (",hashed" if "hashed" in cfg["formula"] else "")


def run(check: Check) -> None:
    check.info["explanation"] = (
        "Hybrid SR: where the nulls are is enumerated (every layout of NaN over 2 nullable float columns, plus None in a categorical), "
        "the row-identity statement is symbolic: a tag column t in R^n flows through the real pipeline and every output row of every "
        "part must BE the tag of the expected input row for all tag values (solver-confirmed identity). Rows kept, pandas index, final "
        "caller drop set and raise/ignore behaviour are ground facts compared with the documented policy."
    )
    check.info["rule"] = "configuration = null layout x formula x na_action x caller drop set x entry point x index kind x output x override"
    check.bounds.update({"rows": 4 if check.tier == "thorough" else 3, "null_layouts": "all 2^(2*rows)", "formulas": list(na.FORMULAS),
                         "variants_per_core_cell": 24 if check.tier == "thorough" else 6})
    check.out_of_scope += ["nulls inside symbolic columns (a real is never NaN)", "more rows", "nulls produced by transforms", "sparse output and the narwhals materializer are NOT solver-decided (scipy / narwhals cannot hold symbolic cells): the same policy oracle runs natively on them (group na_policy.other_branches/ground)", "index labels under the narwhals materializer (narwhals frames have no index; the index clause is judged on the pandas materializer)"]
    check.assumptions += ["with na_action='ignore' rows listed by the caller are still removed; 'raise' is judged on all rows of the evaluated factors"]
    cfgs = gen_configs(check)
    run_cases(check, cfgs, _case)
