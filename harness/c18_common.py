"""Engine-free rig for C18: histories of builds / spec reuses over shared objects vs the same call on fresh objects."""
from __future__ import annotations

import copy

import numpy

from . import matrix_common as mc

FORMULAS = ["center(a)", "scale(a) + A", "a:A + b", "poly(a, 2) + B", "b + C(A, contr.sum):center(a)", "a + z", "center(a):A + z",
            # a back-tick quoted column used by several Python factors of one build (its sanitised alias is per evaluation)
            "center(`x 1`) + scale(`x 1`)", "`x 1` + scale(`x 1`):A + {`x 1` * b}",
            # ... next to a genuine column that looks like its sanitised alias
            "scale(`x 1`) + center(x_1) + {`x 1` * x_1}"]
Z_NULLS_D2 = [1, 3]  # data set 2 carries NaN in the concrete column z at these rows; data set 1 is complete
OPS = ["M1", "M2", "S1", "S2", "U1", "U2", "F1", "F2", "R1", "R2"]  # R: one materializer object per data set, re-used by every R call of the history
OPS3 = ["M3", "U3", "F3"]  # data set 3: the kinds of a and A are swapped (a categorical, A numeric)
KIND_SWAP_FORMULAS = ["a + A", "a:A + b", "A + a:b"]


def all_formulas(seed: int, thorough: bool):
    from . import formula_gen

    return FORMULAS + [f for f in formula_gen.formulas(seed * 2 + 31, 60 if thorough else 8, "nobranch", max_terms=3) if "z" not in f]


def cells(mm):
    labels = list(mm.model_spec.column_names)
    arr = numpy.asarray(mm, dtype=object).reshape((-1, len(labels)))
    return labels, arr


def _fp(x):
    """Cheap structural fingerprint (z3-backed cells by AST identity rather than by printing them)."""
    e = getattr(x, "e", None)
    if e is not None and hasattr(e, "get_id"):
        return ("sym", e.get_id())
    if isinstance(x, dict):
        return tuple((repr(k), _fp(v)) for k, v in x.items())
    if isinstance(x, (list, tuple)):
        return tuple(_fp(v) for v in x)
    if isinstance(x, numpy.ndarray):
        return ("nd", x.shape, tuple(_fp(v) for v in x.ravel().tolist())) if x.dtype == object else ("nd", x.shape, x.tobytes())
    return repr(x)


def spec_fingerprint(spec):
    return (_fp(spec.transform_state), tuple((k, repr(v[0])) for k, v in spec.encoder_state.items()), repr(spec.structure), repr(list(spec.formula)))


def run_history(formula, history, data, same, make_ctx, lost_rows=None):
    """
    data: {1: (df, numeric dict), 2: (df, numeric dict)}; make_ctx(numeric) -> context mapping or None (then numeric is in df).
    lost_rows: {data set: rows the formula itself makes null (lag)} when the default row accounting does not apply.
    Returns (problems, claims).
    """
    from formulaic import Formula, ModelSpec, model_matrix
    from formulaic.materializers import FormulaMaterializer

    mats: dict = {}
    problems, claims = [], []
    F = Formula(formula)
    U = ModelSpec(formula=formula)
    S = None
    f_repr = repr(list(F))
    frames_before = {k: (df.copy(), {n: _snap(v) for n, v in num.items()}) for k, (df, num) in data.items()}
    obtained = []  # (spec, fingerprint at the time it was obtained)

    def fresh(op):
        df, num = data[int(op[1])]
        ctx = make_ctx(num)
        if op[0] == "M":
            return model_matrix(Formula(formula), df, context=ctx)
        if op[0] == "F":
            return Formula(formula).get_model_matrix(df, context=ctx)
        if op[0] == "U":
            return ModelSpec(formula=formula).get_model_matrix(df, context=ctx)
        if op[0] == "S":
            d1, n1 = data[1]
            s = model_matrix(Formula(formula), d1, context=make_ctx(n1)).model_spec
            return s.get_model_matrix(df, context=ctx)
        if op[0] == "R":
            return FormulaMaterializer.for_data(df)(df, context=ctx).get_model_matrix(Formula(formula))

    for step, op in enumerate(history):
        df, num = data[int(op[1])]
        ctx = make_ctx(num)
        if op[0] == "S" and S is None:
            d1, n1 = data[1]
            S = model_matrix(F, d1, context=make_ctx(n1)).model_spec
            obtained.append((S, spec_fingerprint(S), "spec from model_matrix(F, D1)"))
        if op[0] == "M":
            got = model_matrix(F, df, context=ctx)
        elif op[0] == "F":
            got = F.get_model_matrix(df, context=ctx)
        elif op[0] == "U":
            got = U.get_model_matrix(df, context=ctx)
        elif op[0] == "R":
            if op not in mats:
                mats[op] = FormulaMaterializer.for_data(df)(df, context=ctx)
            got = mats[op].get_model_matrix(F)
        else:
            got = S.get_model_matrix(df, context=ctx)
        ref = fresh(op)
        lg, cg = cells(got)
        lr, cr = cells(ref)
        where = f"call {step} ({op}) of history {history}"
        # rows kept depend on this call's data only (not on what earlier calls dropped)
        want_rows = len(df) - (len(Z_NULLS_D2) if (int(op[1]) == 2 and "z" in formula) else 0)
        if int(op[1]) == 3:
            want_rows = len(df)
        if lost_rows is not None:
            want_rows = len(df) - lost_rows[int(op[1])]
        if cg.shape[0] != want_rows:
            problems.append(("history-changes-rows", f"{where}: {cg.shape[0]} rows returned, the data has {want_rows} complete rows"))
        # determinism of what is RECORDED: the same call on fresh objects records state under the same keys
        kg = (sorted(map(str, got.model_spec.transform_state)), sorted(map(str, got.model_spec.encoder_state)))
        kr = (sorted(map(str, ref.model_spec.transform_state)), sorted(map(str, ref.model_spec.encoder_state)))
        if kg != kr:
            problems.append(("recorded-state-keys-differ", f"{where}: state recorded under {kg}, the same call made first on fresh objects records {kr}"))
        if lg != lr or cg.shape != cr.shape:
            problems.append(("history-changes-columns", f"{where}: columns {lg} vs {lr} when made first on fresh objects"))
        else:
            claims.append((f"{where} == the same call made first on fresh objects", [same(cg[i, j], cr[i, j]) for i in range(cg.shape[0]) for j in range(cg.shape[1])],
                           "unmaterialized-spec-reuse" if op[0] == "U" and any(h[0] == "U" for h in history[:step]) else "history-dependence"))
        obtained.append((got.model_spec, spec_fingerprint(got.model_spec), f"spec returned by call {step} ({op})"))
        # purity: inputs and previously obtained specs unchanged
        if repr(list(F)) != f_repr:
            problems.append(("formula-mutated", f"{where}: the shared formula changed"))
        for k, (df0, num0) in frames_before.items():
            dfk, numk = data[k]
            if not dfk.equals(df0):
                problems.append(("data-mutated", f"{where}: data frame {k} changed"))
            for nm, v0 in num0.items():
                if v0 and isinstance(v0[0], tuple) and v0[0][:1] == ("object",):
                    if _snap(numk[nm]) != v0:
                        problems.append(("data-mutated", f"{where}: the object {nm} of the context of data {k} changed: {v0[0][1]} -> {_snap(numk[nm])[0][1]}"))
                    continue
                if len(v0) != len(numk[nm]) or any(x is not y and not _same_obj(x, y) for x, y in zip(v0, numk[nm])):
                    problems.append(("data-mutated", f"{where}: column {nm} of data {k} changed"))
        for sp, fp, what in obtained[:-1]:
            if spec_fingerprint(sp) != fp:
                problems.append(("earlier-spec-mutated", f"{where}: the {what} changed state"))
    return problems, claims


def _same_obj(x, y):
    try:
        return bool(x == y) if isinstance(x, (int, float)) else x is y
    except Exception:
        return False


# ------------------------------------------------------------------------------------------------ native leg: context arrays

# formulas whose numeric inputs arrive as raw float64 arrays through `context` (the buffers a transform could write into); `lag`
# belongs here: it is defined across rows, so a symbolic row map says nothing about it, but it must still be pure
CONTEXT_ARRAY_FORMULAS = {
    "b + lag(a)": 1, "a + lag(a, 2):A": 2, "lag(b) + lag(a)": 1, "center(a) + b": 0, "scale(a):A + poly(b, 2)": 0, "np.log(a + 50) + {a * b} + I(b)": 0,
    "bs(a, df=4) + cr(b, df=3)": 0, "a + b": 0,
    # a Python LIST held in the context and handed to a transform (explicit knots): it is the caller's
    "bs(a, knots=K) + b": 0, "cr(b, knots=K2):A + bs(a, knots=K, degree=1)": 0,
    # ONE contrasts object held by the caller and used for several factors / data sets
    "C(A, T0) + C(B, T0) + a": 0, "C(B, T0):b + C(A, S0)": 0, "C(A, T0) + b": 0,
}


def _snap(v):
    """A comparable snapshot of a caller-owned context value: the elements of an array / list, or the attributes of an object."""
    try:
        return list(v)
    except TypeError:
        return [("object", repr(v), repr(sorted((k, repr(x)) for k, x in getattr(v, "__dict__", {}).items())))]


def context_array_problems(formula: str, history):
    """Native run of one history with a, b supplied as float64 ndarrays in the context; -> list of (tag, message)."""
    from . import matrix_common as mc

    n = mc.NROWS
    lost = CONTEXT_ARRAY_FORMULAS[formula]
    f1, f2 = mc.cat_frame(), mc.cat_frame(a_rows=list(reversed(mc.A_ROWS)))
    arrays = {1: {"a": numpy.array([0.5, 2.0, 3.25, 4.0, 6.5, 7.0, 9.75]), "b": numpy.array([4.0, 1.5, 6.0, 2.5, 8.0, 3.0, 5.5])},
              2: {"a": numpy.array([1.0, 8.5, 2.0, 7.25, 3.0, 6.0, 4.5]), "b": numpy.array([7.0, 2.0, 5.5, 1.0, 6.5, 3.0, 4.25])}}
    if "K" in formula:
        for k in arrays:
            arrays[k]["K"] = [3.0, 6.0]
            arrays[k]["K2"] = [3.5, 5.0]
    if "T0" in formula:
        from formulaic.transforms.contrasts import SumContrasts, TreatmentContrasts

        for k in arrays:
            arrays[k]["T0"] = TreatmentContrasts()
            arrays[k]["S0"] = SumContrasts()
    data = {1: (f1, arrays[1]), 2: (f2, arrays[2])}

    def same(u, v):
        u, v = float(u), float(v)
        return (numpy.isnan(u) and numpy.isnan(v)) or u == v

    problems, claims = run_history(formula, history, data, same, lambda num: dict(num), lost_rows={1: lost, 2: lost})
    for label, cs, tag in claims:
        if not all(cs):
            problems.append((tag, f"{label}: values differ"))
    return problems
