"""C14 — any input string is parsed or rejected with the library's parsing error (CrossHair harnesses)."""
import ast
import re

from formulaic.errors import FormulaParsingError, FormulaSyntaxError
from formulaic.parser import DefaultFormulaParser
from formulaic.parser.algos.tokenize import tokenize

from harness import parser_common as pc

for _k, _v in (("__SHARD__", 0), ("__N__", 1), ("__SEED__", 0), ("__M__", 10), ("__F1__", 0), ("__WN__", 4), ("__M2__", 7)):
    globals().setdefault(_k, _v)


def _pick(x, lo, hi):
    for v in range(lo, hi):
        if x == v:
            return v
    return hi


SIGMA_ERR = pc.SIGMA + ["[", "]", "{", "}", "`", '"', "'", ",", "%", "f(", "``", "00", "01", "2.5"]
CUT20 = ["a", "1", "+", "-", "*", "/", ":", "**", "~", "|", "(", ")", "[", "]", "{", "}", "`", "f(", "b", "."]  # quick uses the first 16
FLAGSETS = [tuple(f for f, on in zip(("TWOSIDED", "MULTIPART", "MULTISTAGE"), bits) if on) for bits in [(a, b, c) for a in (1, 0) for b in (1, 0) for c in (1, 0)]]


def tokenizer_total(s: str) -> bool:
    """
    pre: len(s) <= __N__
    post: _
    """
    try:
        list(tokenize(s))
    except FormulaSyntaxError:
        pass
    return True


def _python_fragment_invalid(s: str) -> bool:
    """Is some embedded Python fragment of `s` itself syntactically invalid (back-tick quoted names read as identifiers)?
    Fragments are judged in the order the tokenizer delivers them; a later tokenizer error does not excuse an earlier fragment."""
    try:
        for t in tokenize(s):
            if t.kind is not None and t.kind.value == "python":
                frag = re.sub(r"`[^`]*`", " _q ", t.token)
                try:
                    ast.parse(frag.strip(), mode="eval")
                except Exception:
                    return True
    except Exception:
        return False
    return False


def classify(s: str, flags=("TWOSIDED", "MULTIPART"), include_intercept=True):
    """-> 'ok' | 'reject' | 'python-syntax' | 'escape:<type>'"""
    from formulaic.formula import Formula

    parser = DefaultFormulaParser(include_intercept=include_intercept, feature_flags=set(f.lower() for f in flags))
    try:
        Formula.from_spec(s, parser=parser, context={"__formulaic_variables_available__": list(pc.AVAILABLE)})
        return "ok"
    except FormulaParsingError:
        return "reject"
    except SyntaxError as e:
        with pc._untraced():
            bad = _python_fragment_invalid(s)
        return "python-syntax" if bad else f"escape:{type(e).__name__}"
    except Exception as e:
        return f"escape:{type(e).__name__}"


def _ok(s, flags=("TWOSIDED", "MULTIPART"), ii=True):
    return not classify(s, flags, ii).startswith("escape")


def err1(k0: int, ii: bool) -> bool:
    """
    pre: 0 <= k0 < 33
    post: _
    """
    return _ok(SIGMA_ERR[_pick(k0, 0, 32)], ii=bool(ii))


def err2(k0: int, k1: int) -> bool:
    """
    pre: 0 <= k0 < 33 and 0 <= k1 < 33 and k0 == __SHARD__
    post: _
    """
    A = SIGMA_ERR
    return _ok(" ".join([A[_pick(k0, 0, 32)], A[_pick(k1, 0, 32)]]))


def err3(k0: int, k1: int, k2: int) -> bool:
    """
    pre: 0 <= k0 < __M__ and 0 <= k1 < __M__ and 0 <= k2 < __M__ and k0 == __SHARD__
    post: _
    """
    A = CUT20
    return _ok(" ".join([A[_pick(k0, 0, __M__ - 1)], A[_pick(k1, 0, __M__ - 1)], A[_pick(k2, 0, __M__ - 1)]]))


def err3full(k0: int, k1: int, k2: int) -> bool:
    """
    pre: 0 <= k0 < 33 and 0 <= k1 < 33 and 0 <= k2 < 33 and k0 == __SHARD__
    post: _
    """
    A = SIGMA_ERR
    return _ok(" ".join([A[_pick(k0, 0, 32)], A[_pick(k1, 0, 32)], A[_pick(k2, 0, 32)]]))


def err4(k0: int, k1: int, k2: int, k3: int) -> bool:
    """
    pre: 0 <= k0 < 20 and 0 <= k1 < 20 and 0 <= k2 < 20 and 0 <= k3 < 20 and k0 * 20 + k1 == __SHARD__
    post: _
    """
    A = CUT20
    return _ok(" ".join(A[_pick(k, 0, 19)] for k in (k0, k1, k2, k3)))


# ---- valid Python fragments of unusual AST shape, in every place a factor can stand (incl. left of '~', where the parser also
#      extracts the variables a fragment uses)

PYFRAGS = ["f(x[0].y)", "{x[0].y}", '{"a".upper()}', "{(a+b).sum()}", "f(a)(b)", "{lambda q: q}", "{[i for i in a]}", "{a if b else c}", "{a.b.c}",
           "f(*a, **k)", "{not a}", "{a @ b}", "{a[1:2, ::3]}", '{f"{a}"}', "{-a}", "{a < b < c}", "{(a := 1)}", "np.log(df.y[1:].values)",
           "{a.b(c).d[0]}", "{...}", "{a, b}", "{1e3}", "{b'x'}", "{a is not None}", "f(a)[0](b).c"]
PYCTX = ["{} ~ a", "a ~ {}", "{}", "{} + a | b", "[ {} ~ a ] + b", "{} : {}", "({}) ** 2", "a ~ b | {}", "{} | a ~ b"]
PYFLAGS = [(), ("TWOSIDED",), ("MULTIPART",), ("TWOSIDED", "MULTIPART"), ("TWOSIDED", "MULTIPART", "MULTISTAGE"), ("MULTISTAGE",)]


def pyfrag(i: int, c: int, fl: int, ii: bool) -> bool:
    """
    pre: 0 <= i < 25 and 0 <= c < 9 and 0 <= fl < 6 and i == __SHARD__
    post: _
    """
    i, c, fl = _pick(i, 0, 24), _pick(c, 0, 8), _pick(fl, 0, 5)
    s = PYCTX[c].replace("{}", PYFRAGS[i])
    r = classify(s, PYFLAGS[fl], bool(ii))
    return not r.startswith("escape") and r != "python-syntax"  # the fragments ARE valid Python: a SyntaxError is no excuse here


# ---- feature flags: accepted under F  =>  accepted under ALL with equal terms, and the AST under ALL uses no operator F disables

def _ast_ops(node, out, bracket=False):
    from formulaic.parser.types import ASTNode

    if isinstance(node, ASTNode):
        stage = getattr(node.operator._to_terms, "__name__", "") == "multistage_formula"
        out.append((node.operator.symbol + ("stage" if stage else ""), node.operator.arity))
        for a in node.args:
            _ast_ops(a, out)


def flags_ok(s: str, fi: int) -> bool:
    from formulaic.formula import Formula

    F = FLAGSETS[fi]
    ALL = ("TWOSIDED", "MULTIPART", "MULTISTAGE")
    ctx = {"__formulaic_variables_available__": list(pc.AVAILABLE)}
    pF = DefaultFormulaParser(feature_flags=set(f.lower() for f in F))
    pA = DefaultFormulaParser(feature_flags=set(f.lower() for f in ALL))
    try:
        fF = Formula.from_spec(s, parser=pF, context=ctx)
    except Exception:
        return True  # rejected under F: nothing to show
    try:
        fA = Formula.from_spec(s, parser=pA, context=ctx)
    except Exception:
        return False  # accepted under a restricted parser but not under the unrestricted one
    if repr(fF) != repr(fA):
        return False
    ops = []
    _ast_ops(pA.get_ast(s, context=ctx), ops)
    if "TWOSIDED" not in F and ("~", 2) in ops:
        return False
    if "MULTIPART" not in F and ("|", 2) in ops:
        return False
    if "MULTISTAGE" not in F and ("~stage", 2) in ops:
        return False
    return True


FLAG_ALPHA = ["a", "+", "~", "|", "(", "[", "]", ")", "b", ":"]  # the first __M__ symbols are used

WARMUP = ["a", "y ~ a | b", "[ a ~ b ] + c", "a + ("]  # what the one parser object parsed before it was reconfigured


def _outcome(parser, s):
    from formulaic.formula import Formula

    try:
        return repr(Formula.from_spec(s, parser=parser, context={"__formulaic_variables_available__": list(pc.AVAILABLE)}))
    except FormulaParsingError as e:
        return f"<{type(e).__name__}>"


def parser_copies_problems():
    """Native (ground): a deep copy / pickle round trip / shallow copy of a configured (and used) parser parses every 3-token
    stream like a fresh parser with the same configuration."""
    import copy
    import itertools
    import pickle

    out = []
    for fi, ii in itertools.product(range(8), (True, False)):
        flags = set(f.lower() for f in FLAGSETS[fi])
        used = DefaultFormulaParser(include_intercept=ii, feature_flags=flags)
        _outcome(used, "y ~ a | b")
        copies = {"deepcopy": copy.deepcopy(used), "pickle": pickle.loads(pickle.dumps(used)), "copy": copy.copy(used),
                  "deepcopy of an unused parser": copy.deepcopy(DefaultFormulaParser(include_intercept=ii, feature_flags=flags))}
        fresh = DefaultFormulaParser(include_intercept=ii, feature_flags=flags)
        for ks in itertools.product(range(7), repeat=3):
            s = " ".join(FLAG_ALPHA[k] for k in ks)
            want = _outcome(fresh, s)
            for how, q in copies.items():
                if _outcome(q, s) != want:
                    out.append((s, f"a {how} of a parser with flags {FLAGSETS[fi]} (include_intercept={ii}) parses {s!r} differently from a fresh parser with that configuration"))
                    break
            if len(out) >= 5:
                return out
    return out


def flag_switch(f1: int, f2: int, w: int, k0: int, k1: int, k2: int) -> bool:
    """
    pre: 0 <= f1 < 8 and 0 <= f2 < 8 and 0 <= w < __WN__ and 0 <= k0 < __M2__ and 0 <= k1 < __M2__ and 0 <= k2 < __M2__ and f2 == __SHARD__ and f1 == __F1__
    post: _
    """
    # one parser object with a history: configured for F1, used, reconfigured to F2 - it then parses like a parser born with F2
    f1, f2, w = _pick(f1, 0, 7), _pick(f2, 0, 7), _pick(w, 0, __WN__ - 1)
    s = " ".join(FLAG_ALPHA[_pick(k, 0, __M2__ - 1)] for k in (k0, k1, k2))
    used = DefaultFormulaParser(feature_flags=set(f.lower() for f in FLAGSETS[f1]))
    _outcome(used, WARMUP[w])
    used.set_feature_flags(set(f.lower() for f in FLAGSETS[f2]))
    fresh = DefaultFormulaParser(feature_flags=set(f.lower() for f in FLAGSETS[f2]))
    return _outcome(used, s) == _outcome(fresh, s)


def flags3(k0: int, k1: int, k2: int, k3: int, fi: int) -> bool:
    """
    pre: 0 <= k0 < __M__ and 0 <= k1 < __M__ and 0 <= k2 < __M__ and 0 <= k3 < __N__ and 0 <= fi < 8 and fi == __SHARD__
    post: _
    """
    A = FLAG_ALPHA + [""]
    k3 = _pick(k3, 0, __N__ - 1) if __N__ > 1 else 10
    return flags_ok(" ".join(A[k] for k in (_pick(k0, 0, __M__ - 1), _pick(k1, 0, __M__ - 1), _pick(k2, 0, __M__ - 1), k3)).strip(), _pick(fi, 0, 7))


# ---- edit neighbourhood of well-formed seeds

SEEDS = [
    "a ** ( 2 )", "( a - b ) / c", "a + b : c", "y ~ a | b", "( a + b ) ** 2", "a %in% b", "f( a ) + { b }", "[ a ~ b ] + c", "`a b` : c", "a * ( b + c )",
    "y ~ . - a", "a : ( b - c )", "- 1 + a", "a / ( b + c )", "( a + b ) %in% c", "\"s\" + a", "a ^ 2 + 0", "( ( a ) )", "a ~ b ~ c", "a + f( b , c )",
]


def edit1(seed: int, pos: int, k: int, mode: int) -> bool:
    """
    pre: 0 <= seed < 20 and 0 <= pos < 8 and 0 <= k < 33 and 0 <= mode < 3 and seed == __SHARD__
    post: _
    """
    seed, pos, k, mode = _pick(seed, 0, 19), _pick(pos, 0, 7), _pick(k, 0, 32), _pick(mode, 0, 2)
    toks = SEEDS[seed].split(" ")
    if pos > len(toks) - (0 if mode == 1 else 1):
        return True
    t = list(toks)
    if mode == 0:
        t[pos] = SIGMA_ERR[k]
    elif mode == 1:
        t.insert(pos, SIGMA_ERR[k])
    else:
        if k != 0:
            return True
        del t[pos]
    return _ok(" ".join(t))


def edit2(seed: int, p1: int, k1: int, d: int, k2: int) -> bool:
    """
    pre: 0 <= seed < 20 and 0 <= p1 < 8 and 1 <= d <= 2 and 0 <= k1 < 20 and 0 <= k2 < 20 and seed == __SEED__ and p1 == __SHARD__
    post: _
    """
    seed, p1, k1, d, k2 = _pick(seed, 0, 19), _pick(p1, 0, 7), _pick(k1, 0, 19), _pick(d, 1, 2), _pick(k2, 0, 19)
    t = SEEDS[seed].split(" ")
    p2 = p1 + d
    if p1 >= len(t) or p2 >= len(t):
        return True
    t[p1] = CUT20[k1]
    t[p2] = CUT20[k2]
    return _ok(" ".join(t))


def explain(fname, call):
    a = call["args"] if call else []
    try:
        if fname in ("err1", "err2", "err3full"):
            n = {"err1": 1, "err2": 2, "err3full": 3}[fname]
            s = " ".join(SIGMA_ERR[k] for k in a[:n])
            return f"{classify(s)}: formula {s!r}"
        if fname in ("err3", "err4"):
            s = " ".join(CUT20[k] for k in a)
            return f"{classify(s)}: formula {s!r}"
        if fname == "flag_switch":
            s = " ".join(FLAG_ALPHA[k] for k in a[3:6])
            return f"parser-history: formula {s!r}: a parser configured for {FLAGSETS[a[0]]}, used on {WARMUP[a[2]]!r} and reconfigured to {FLAGSETS[a[1]]} parses differently from a fresh parser with those flags"
        if fname == "pyfrag":
            s = PYCTX[a[1]].replace("{}", PYFRAGS[a[0]])
            return f"{classify(s, PYFLAGS[a[2]], bool(a[3]))}: formula {s!r} (flags {PYFLAGS[a[2]]}, include_intercept={bool(a[3])})"
        if fname == "tokenizer_total":
            return f"tokenizer: tokenize({a[0]!r}) raises something other than FormulaSyntaxError"
        if fname == "flags3":
            s = " ".join((FLAG_ALPHA + [""])[k if (i < 3 or __N__ > 1) else 10] for i, k in enumerate(a[:4])).strip()
            return f"feature-flags: formula {s!r} under flags {FLAGSETS[a[4]]} vs ALL"
        if fname == "edit1":
            seed, pos, k, mode = a
            t = SEEDS[seed].split(" ")
            if mode == 0:
                t[pos] = SIGMA_ERR[k]
            elif mode == 1:
                t.insert(pos, SIGMA_ERR[k])
            else:
                del t[pos]
            s = " ".join(t)
            return f"{classify(s)}: formula {s!r}"
        if fname == "edit2":
            seed, p1, k1, d, k2 = a
            t = SEEDS[seed].split(" ")
            t[p1] = CUT20[k1]
            t[p1 + d] = CUT20[k2]
            s = " ".join(t)
            return f"{classify(s)}: formula {s!r}"
    except Exception as e:
        return f"{fname}{a}: {type(e).__name__}: {e}"
    return f"{fname} fails for {a}"


# ---- native fuzz companion (ground; not solver-decided): character-level mutations of grammar-derived formulas

FUZZ_CHARS = list("ab1 0+-*/:^~|()[]{}`'\".,%_#\\") + ["**", "%in%", "f(", "{a", "`x", " ~ ", "\t", "\n", "é", "2.5", "1e3", "np.log(a)"]


def fuzz_strings(seed: int, n: int):
    import random

    rng = random.Random(seed)
    base = pc.random_streams(seed + 1, n)
    out = []
    for syms in base:
        s = "".join(t + (" " if rng.random() < 0.7 else "") for t in syms)
        for _ in range(rng.choice([0, 1, 1, 2, 3])):
            pos = rng.randrange(len(s) + 1)
            how = rng.random()
            ch = rng.choice(FUZZ_CHARS)
            if how < 0.5:
                s = s[:pos] + ch + s[pos:]
            elif how < 0.8 and pos < len(s):
                s = s[:pos] + ch + s[pos + 1:]
            elif pos < len(s):
                s = s[:pos] + s[pos + 1:]
        if re.search(r"(\*\*|\^)\s*[0-9][0-9 ]*[0-9]", s):
            continue  # a multi-digit exponent on a many-term operand is legitimately expensive (|S| ** |S| products): probed separately
        out.append(s)
    return out
