"""C15 — lexing is whitespace-insensitive, quote-faithful, normalises Python code and records spans (Engine CH)."""
import itertools
import random

from ch import runner
from lib.common import Check

from . import ch_c15


def run(check: Check) -> None:
    thorough = check.tier == "thorough"
    rng = random.Random(check.seed)
    check.info["explanation"] = (
        "Engine CH. Whitespace (CH-sym): between / before / after two tokens the whitespace is a SYMBOLIC string constrained to str.isspace() "
        "(every Unicode whitespace character at once); the token list must equal that of the canonical spacing, for ordered pairs of a 26-symbol "
        "alphabet, and whole formulas with four symbolic whitespace sites must parse to the same formula. Quoting (CH-sym): back-tick names and "
        "brace / call fragments with SYMBOLIC content are single tokens with verbatim text. Spans (CH-sym, all of Unicode): for every string of <= N "
        "code points spans are in range, ordered, non-overlapping and delimit the token text. Python normalisation (CH-enum): reformatted fragments "
        "denote the same factor."
    )
    check.info["rule"] = "case = (harness, shard)"
    check.bounds.update({"whitespace_length": 1, "pairs": "all 676 ordered pairs (thorough) / ~95 (quick: fixed core with an operator/bracket/quote first + seeded 25)",
                         "quoted_name_length": 3 if thorough else 2, "span_string_length": 3 if thorough else 2, "fragments": len(ch_c15.FRAGMENTS)})
    check.out_of_scope += ["whitespace runs longer than 1 character at a site", "strings longer than N for spans / quoting", "Python fragments outside the 10-fragment menu"]
    # native cross-validation: the same harness functions, untraced, over a concrete grid; a failure here IS a reproduced violation
    WS = ["", " ", "\t", "\n", "\u3000", "\x1c", "\xa0"]
    fails = []

    def native(fname, *args, **glob):
        for k, v in glob.items():
            ch_c15.__dict__[k] = v
        try:
            ok = getattr(ch_c15, fname)(*args)
        except Exception:
            ok = False
        if ok is not True:
            fails.append((fname, list(args), glob))

    for i in range(26):
        for j in range(26):
            for w in WS:
                native("ws_pair", i, j, w, "", " ", __SHARD__=i, __J__=j)
    for k in range(12):
        for ws in itertools.product(["", " ", "\n"], repeat=4):
            native("ws_formula", k, *ws, __SHARD__=k, __S__=1)
    chars = [chr(c) for c in list(range(0, 130)) + [0x3000, 0x2028, 0xE9]]
    for a in chars:
        for b in [""] + chars[30:60]:
            n = a + b
            if "`" not in n:
                native("quote_name", n, __N__=2)
            if all(ch not in ch_c15._BAD for ch in n):
                native("quote_python", n, __N__=2)
            for s_ in (n, n + "`", "%" + n):
                native("spans", s_, __N__=3)
    for k in range(101):
        native("quote_name_factor", k, __SHARD__=k % 4)
    for i in range(10):
        for j in range(3):
            for c in range(3):
                native("pynorm", i, j, c, __SHARD__=i)
    for i in range(len(ch_c15.PYSTR)):
        for pos in range(3):
            native("pystr", i, pos)
    cut = [ch_c15.NAME_CHARS.index(c) for c in "a\\ ('\"{1.sb_"]
    for k in range(101):
        for k2 in ([101] + list(range(101)) if k in cut else [101]):
            for w in range(4):
                native("quote_in_python", k, k2, w, __SHARD__=k % 4, __K2LO__=0)
    for k, r, pos in itertools.product(range(101), range(7), range(4)):
        native("quote_routes", k, r, pos, __SHARD__=k % 4, __R__=r)
    for i, j, w in itertools.product(range(14), range(14), range(3)):
        native("quote_pairs", i, j, w, __SHARD__=i)
    for q, wrap in itertools.product(range(2), range(2)):
        for cs in itertools.product(range(14), repeat=3):
            native("pylit", q, cs[0], cs[1], cs[2], 13, wrap, __SHARD__=cs[0], __C3LO__=13, __C2LO__=0)
    # native companion (ground): whitespace of random kind and length at the token boundaries of grammar-derived formulas
    nws = 0
    ws_bad = []
    for canon, spaced in ch_c15.ws_random_cases(check.seed * 3 + 1, 20000 if thorough else 3000):
        nws += 1
        msg = ch_c15.ws_random_check(canon, spaced)
        if msg:
            ws_bad.append((canon, spaced, msg))
    check.obligation("whitespace.random/ground", "ground", nws - len(ws_bad))
    for canon, spaced, msg in ws_bad[:5]:
        check.violation(f"{msg.split(':', 1)[0]}::{canon}", msg, {"kind": "c15_ws", "canon": canon, "spaced": spaced})
    check.obligation("lexing/native cross-validation", "ground" if not fails else "refuted")
    seen_f = set()
    for fname, args, glob in fails:
        if fname in seen_f:
            continue
        seen_f.add(fname)
        call = {"args": args, "kwargs": {}}
        for k, v in glob.items():
            ch_c15.__dict__[k] = v
        check.violation(f"{ch_c15.explain(fname, call).split(':', 1)[0]}::{fname}{args}", ch_c15.explain(fname, call),
                        {"kind": "ch_native", "module": "ch_c15", "function": fname, "call": call, "globals": glob})
    pairs = [(i, j) for i in range(26) for j in range(26)]
    if not thorough:
        core = [(i, j) for i, j in pairs if ch_c15.SYMS[i] in ("+", "**", "~", "%in%", "(", ")", "`a b`", "f(a)") and j % 3 == 0]
        rest = [p for p in pairs if p not in core]
        rng.shuffle(rest)
        pairs = core + rest[:25]
    N = 3 if thorough else 2
    fns = {
        "ws_pair": [{"SHARD": i, "J": j} for i, j in pairs],
        "ws_formula": [{"SHARD": k, "S": (1 if thorough else 0)} for k in range(12)],
        "quote_name": [{"N": N}], "quote_name_factor": [0, 1, 2, 3], "quote_name_known": [0, 1], "quote_routes": [{"SHARD": k, "R": r} for k in range(4) for r in range(7)], "quote_python": [{"N": N}],
        "spans": [{"N": N}],
        "pynorm": list(range(10)), "pystr": [None], "quote_in_python": [{"SHARD": k, "K2LO": 101} for k in range(4)], "quote_pairs": list(range(14)) if thorough else [0, 3, 5, 8, 10], "pylit": [{"SHARD": k, "C2LO": (0 if thorough else 13), "C3LO": 13} for k in range(14)],
    }
    for f in fns:
        check.functions.add(f"harness.ch_c15:{f}")
    check.functions.update({"formulaic.parser.algos.tokenize:tokenize", "formulaic.parser.types.token:Token.update", "formulaic.parser.algos.sanitize_tokens:sanitize_python_code",
                            "formulaic.utils.code:format_expr/sanitize_variable_names"})

    def keyer(fname, call):
        if fname == "quote_name" and call and call["args"]:
            return f"quoting::backtick-name::{call['args'][0]!r}"
        if fname == "quote_name_factor" and call and call["args"]:
            return f"quoting::backtick-name::{ch_c15.NAME_CHARS[call['args'][0]]!r}"
        if fname == "quote_name_known" and call and call["args"]:
            return f"quoting::backtick-name::{ch_c15.KNOWN_UNQUOTABLE[call['args'][0]]!r}"
        return ch_c15.explain(fname, call).split(":", 1)[0] + "::" + fname + repr(call)

    runner.run_module(check, "ch_c15", fns, pct=(900 if thorough else 90), ppt=30, group="lexing", keyer=keyer)
    check.sample({"harness": "ws_pair", "input": "w, lead, trail: symbolic whitespace strings (len <= 1); tokens '+' and 'a'"})
    check.sample({"harness": "spans", "input": "s: symbolic str over all of Unicode"})
