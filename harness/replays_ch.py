"""Native replay of a CrossHair counterexample: call the harness function itself, untraced, with the reported arguments."""
from __future__ import annotations

import importlib

from .replays import replay


@replay("ch_native")
def _(p):
    mod = importlib.import_module(f"harness.{p['module']}")
    for k, v in (p.get("globals") or {}).items():
        mod.__dict__[k] = v
    fn = getattr(mod, p["function"])
    call = p["call"]
    try:
        ok = fn(*call["args"], **call["kwargs"])
    except Exception as e:
        return f"harness-raised-{type(e).__name__}: {p['function']}({call}) raised {e}"
    if ok is True:
        return None
    explain = getattr(mod, "explain", None)
    return f"{p['function']}: " + (explain(p["function"], call) if explain else f"property fails for {call}")


@replay("c01_stream")
def _(p):
    from harness import parser_common as pc

    v, d = pc.compare(p["symbols"], include_intercept=p["ii"], flags=tuple(p["flags"]), available=pc.AVAILABLE, tie_order=False)
    return None if v in ("agree", "dontcare") else f"{v}: formula {' '.join(p['symbols'])!r}: {d}"


@replay("c01_scaled")
def _(p):
    from harness import parser_common as pc

    return pc.scaled_check(p["text"], p["expected"], p["route"])


@replay("c15_ws")
def _(p):
    from harness import ch_c15

    return ch_c15.ws_random_check(p["canon"], p["spaced"])


@replay("c14_parser_copies")
def _(p):
    from harness import ch_c14

    found = ch_c14.parser_copies_problems()
    return f"parser-copy: {found[0][1]}" if found else None


@replay("c14_string")
def _(p):
    from harness import ch_c14

    kw = {}
    if p.get("flags") is not None:
        kw = {"flags": tuple(p["flags"]), "include_intercept": bool(p.get("ii", True))}
    import signal

    class _Slow(BaseException):
        pass

    def _alarm(*a):
        raise _Slow()

    old = signal.signal(signal.SIGALRM, _alarm)
    signal.alarm(10)
    try:
        c = ch_c14.classify(p["s"], **kw)
    except _Slow:
        return f"no-verdict-within-10s: formula {p['s']!r} is neither parsed nor rejected"
    finally:
        signal.alarm(0)
        signal.signal(signal.SIGALRM, old)
    return f"{c}: formula {p['s']!r}" + (f" ({kw})" if kw else "") if (c.startswith("escape") or (c == "python-syntax" and p.get("valid_python"))) else None


@replay("c17_formula")
def _(p):
    from harness import c17_native

    found = c17_native.check_formula(p["formula"])
    return f"{found[0][0]}: {found[0][1]}" if found else None


@replay("c17_generated")
def _(p):
    from harness import c17_native

    found = c17_native.check_generated(p["formula"], set(p["used"]))
    return f"{found[0][0]}: {found[0][1]}" if found else None


@replay("c17_live_spec")
def _(p):
    from harness import c17_native

    found = c17_native.check_live_spec()
    return f"{found[0][0]}: {found[0][1]}" if found else None


@replay("c17_sources")
def _(p):
    from harness import c17_native

    found = c17_native.check_sources()
    return f"{found[0][0]}: {found[0][1]}" if found else None
