"""C17 — required variables, name resolution order and '.' expansion (Engine CH + labelled native enumeration)."""
from ch import runner
from lib.common import Check, FunctionRecorder

from . import c17_native, ch_c17


def run(check: Check) -> None:
    thorough = check.tier == "thorough"
    check.info["explanation"] = (
        "Engine CH: (1) the real FormulaMaterializer.__init__ builds the three-layer context from a data mapping and a context mapping whose "
        "membership of three names (one of them shadowing the built-in 'log') is decided by 6 SYMBOLIC booleans; for every combination the "
        "real _lookup and the factor-evaluation path return the value and source of the first of data > context > transforms containing the name, "
        "NameError otherwise, and never write to the supplied mappings. (2) '.' expansion through the real parser for available-variable lists x "
        "left-hand sides x intercept x surrounding terms (symbolic indices). (3) Necessity / sufficiency of required_variables and truthfulness of "
        "reported sources over a formula menu: native enumeration, labelled as such (the solver contributes nothing there)."
    )
    check.info["rule"] = "case = (harness, shard) for CH; one case per formula for the native part"
    check.bounds.update({"names": ch_c17.NAMES, "available_lists": ch_c17.AVAIL_MENU, "lhs_menu": ch_c17.LHS_MENU, "formulas_native": len(c17_native.FORMULAS)})
    check.out_of_scope += ["context mappings with arbitrary keys (4-name alphabet)", "formulas outside the menu for necessity/sufficiency"]
    with FunctionRecorder(check.functions):
        for f in c17_native.FORMULAS:
            found = c17_native.check_formula(f)
            check.case(f"native:{f}")
            check.obligation("required_variables/ground", "refuted" if found else "ground")
            for tag, msg in found:
                check.violation(f"required::{tag}::{f}", msg, {"kind": "c17_formula", "formula": f})
        gen = c17_native.generated(check.seed * 3 + 5, 400 if thorough else 60)
        check.bounds["formulas_generated"] = len(gen)
        for f, used in gen:
            found = c17_native.check_generated(f, used)
            check.case(f"generated:{f}")
            check.obligation("required_variables.generated/ground", "refuted" if found else "ground")
            for tag, msg in found:
                check.violation(f"required::{tag}::generated", msg, {"kind": "c17_generated", "formula": f, "used": sorted(used)})
        found = c17_native.check_live_spec()
        check.case("live spec: read, edit the formula in place, read again")
        check.obligation("required_variables.live_spec/ground", "refuted" if found else "ground")
        for tag, msg in found:
            check.violation(f"required::{tag}", msg, {"kind": "c17_live_spec"})
        found = c17_native.check_sources()
        check.obligation("sources/ground", "refuted" if found else "ground")
        for tag, msg in found:
            check.violation(f"sources::{tag}", msg, {"kind": "c17_sources"})
    # native cross-validation of the CH harnesses
    import itertools

    ok = all(ch_c17.resolve(k, *bits) for k in range(3) for bits in itertools.product((False, True), repeat=6))
    ok = ok and all(ch_c17.dot_expand(av, lh, ii, ex) for av in range(10) for lh in range(13) for ii in (False, True) for ex in range(3))
    check.obligation("resolution+dot/native cross-validation", "ground" if ok else "refuted")
    if not ok:
        check.harness_error("a C17 CrossHair harness fails natively on its full enumerated space")
    fns = {"resolve": [0, 1, 2], "dot_expand": list(range(10))}
    for f in fns:
        check.functions.add(f"harness.ch_c17:{f}")
    runner.run_module(check, "ch_c17", fns, pct=(600 if thorough else 110), ppt=20, group="resolution",
                      keyer=lambda fname, call: ch_c17.explain(fname, call))
    check.sample({"harness": "resolve", "input": "k symbolic index, d0..d3 / c0..c3 symbolic bools (membership of x, C, log, q in data / context)"})
