"""C16 — linear-constraint specifications compile to the affine map they express (Engine SR)."""

from __future__ import annotations

import ast as _ast
import contextlib
import itertools
import sys
import types

import numpy
import z3

import formulaic.utils.constraints as C
from formulaic.errors import FormulaSyntaxError
from formulaic.utils.constraints import LinearConstraintParser, LinearConstraints
from lib.common import Check
from sr import npproxy, rig
from sr.symreal import SFloat, SReal, lift, model_value, prove

from . import replays

# ------------------------------------------------------------------------------------------------ templates
# A template is a nested tuple: ("v", name) | ("l", index) | ("neg", t) | (op, t1, t2), op in + - * /

OPS = "+-*/"
PREC = {"+": 1, "-": 1, "*": 2, "/": 2}


def leaves(names):
    return [("v", n) for n in names] + [("l", None)]


def gen(depth, names):
    if depth == 0:
        return leaves(names)
    sub = gen(depth - 1, names)
    out = list(sub)
    out += [("neg", t) for t in sub if t[0] != "neg"]
    out += [(op, a, b) for op in OPS for a in sub for b in sub]
    return out


def number_literals(t, counter):
    """Give every literal leaf its own index (so each is a distinct symbolic value)."""
    if t[0] == "l":
        counter[0] += 1
        return ("l", counter[0])
    if t[0] == "v":
        return t
    if t[0] == "neg":
        return ("neg", number_literals(t[1], counter))
    return (t[0], number_literals(t[1], counter), number_literals(t[2], counter))


def render(t, full=True, parent=None, side=None, first=True):
    """`first`: this subtree starts the written expression (or a parenthesised group): a prefix sign there needs no parentheses in
    the minimal rendering (`-a + b`, `-a - b = 1`)."""
    if t[0] == "v":
        return t[1]
    if t[0] == "l":
        return str(100 + t[1])
    if t[0] == "neg":
        inner = render(t[1], full, "neg", None, False)
        s = "-" + (inner if t[1][0] in "vl" else f"({inner})" if not inner.startswith("(") else inner)
        if not full and first and parent in ("+", "-", "top", None):
            return s
        return f"({s})" if parent is not None and (full or parent != "top") else s
    s = f"{render(t[1], full, t[0], 'l', first)} {t[0]} {render(t[2], full, t[0], 'r', False)}"
    if parent is None or parent == "top":
        return s
    if full or parent == "neg":
        return f"({s})"
    need = PREC[t[0]] < PREC[parent] or (PREC[t[0]] == PREC[parent] and side == "r")
    return f"({s})" if need else s


def ref_eval(t, env, lits):
    """Independent reading of the template over z3 reals."""
    if t[0] == "v":
        return env[t[1]]
    if t[0] == "l":
        return lits[t[1]]
    if t[0] == "neg":
        return -ref_eval(t[1], env, lits)
    a, b = ref_eval(t[1], env, lits), ref_eval(t[2], env, lits)
    return {"+": a + b, "-": a - b, "*": a * b, "/": a / b}[t[0]]


def float_eval(t, env, lits):
    if t[0] == "v":
        return env[t[1]]
    if t[0] == "l":
        return lits[t[1]]
    if t[0] == "neg":
        return -float_eval(t[1], env, lits)
    a, b = float_eval(t[1], env, lits), float_eval(t[2], env, lits)
    return {"+": a + b, "-": a - b, "*": a * b, "/": a / b}[t[0]]


def syn_kind(t):
    """Syntactic linearity: 0 const, 1 linear, 2 not linear."""
    if t[0] == "v":
        return 1
    if t[0] == "l":
        return 0
    if t[0] == "neg":
        return syn_kind(t[1])
    a, b = syn_kind(t[1]), syn_kind(t[2])
    if t[0] in "+-":
        return max(a, b)
    if t[0] == "*":
        return 2 if (a and b) else max(a, b)
    return a if b == 0 else 2


def divisors(t, lits):
    """Denominators of the template (must be non-zero for the expression to be defined)."""
    if t[0] in "vl":
        return []
    if t[0] == "neg":
        return divisors(t[1], lits)
    out = divisors(t[1], lits) + divisors(t[2], lits)
    if t[0] == "/":
        out.append(t[2])
    return out


# ------------------------------------------------------------------------------------------------ stubs


@contextlib.contextmanager
def symbolic_literals(mapping):
    """Rebind `ast` and `numpy` inside formulaic.utils.constraints: placeholder literals evaluate to symbolic reals."""

    class AstProxy(types.ModuleType):
        def __getattr__(self, name):
            return getattr(_ast, name)

    def literal_eval(s):
        v = _ast.literal_eval(s)
        if isinstance(v, int) and v in mapping:
            npproxy.HITS.add("ast.literal_eval: placeholder literals 101,102,... evaluate to symbolic reals")
            return mapping[v]
        return v

    ap = AstProxy("ast")
    ap.literal_eval = literal_eval

    def _eye(n, *a, **k):
        npproxy.HITS.add("numpy.eye -> object dtype")
        return numpy.eye(n, *a, **k).astype(object)

    def _array(obj, *a, **k):
        if npproxy._has_sym(obj) or isinstance(obj, SReal):
            return numpy.array(obj, dtype=object)
        return numpy.array(obj, *a, **k)

    proxy = npproxy.NumpyProxy({"zeros": npproxy._zeros, "eye": _eye, "array": _array})
    old_ast, old_np = C.ast, C.numpy
    C.ast, C.numpy = ap, proxy
    try:
        yield
    finally:
        C.ast, C.numpy = old_ast, old_np


REJECTIONS = (RuntimeError, FormulaSyntaxError)


def run(check: Check) -> None:
    thorough = check.tier == "thorough"
    tmo = 60000 if thorough else 10000
    names = ["a", "b"]
    check.info["explanation"] = (
        "Engine SR: the real LinearConstraintParser.get_matrix / LinearConstraints.from_spec run with every numeric "
        "literal replaced by a distinct symbolic real; obligation per template: for ALL literal values and ALL x, "
        "A.x - b == lhs(x) - rhs(x) as read by an independent evaluator of the template's own syntax tree (QF_NRA identity). "
        "Templates the library rejects (RuntimeError / FormulaSyntaxError) are counted; a template that is not linear can "
        "never satisfy the identity, so accepting one is a refutation."
    )
    check.info["rule"] = "all expression trees of the stated depth over {a, b, literal} x {+,-,*,/,unary -}, in two renderings (fully parenthesised / minimal parentheses); distinct = distinct rendered string"
    check.bounds.update({"tree_depth": 2, "variables": names, "constraints_per_spec": "<=3", "renderings": 2 if thorough else "full for all, minimal for a VERIF_SEED slice"})
    check.out_of_scope += ["depth > 2 trees beyond the seeded sample of depth 3-4 trees", "more than 2 distinct columns", "tuple / array specifications (no parsing involved)", "literal values that make a written divisor zero"]
    check.assumptions += ["written divisors are non-zero (the expression is otherwise undefined)"]

    trees = gen(2, names)
    seen = set()
    accepted = rejected_nonlinear = rejected_linear_syntax = rejected_linear_other = 0
    recorded = 0
    import random

    rng = random.Random(check.seed)
    jobs = []
    for t in trees:
        cnt = [0]
        t = number_literals(t, cnt)
        jobs.append((t, True))
        if thorough or rng.random() < 0.15:
            jobs.append((t, False))

    for t, full in jobs:
        s = render(t, full=full, parent="top")
        if s in seen:
            continue
        seen.add(s)
        nl = _count_lits(t)
        res = _one(check, [("expr", t, None)], s, names, nl, tmo, record=recorded < 40)
        recorded += 1
        kind = syn_kind(t)
        if res == "accepted":
            accepted += 1
        elif kind == 2:
            rejected_nonlinear += 1
        elif res == "FormulaSyntaxError":
            rejected_linear_syntax += 1
        else:
            rejected_linear_other += 1

    # deeper trees (depth 3-4, repeated variables, constants on both sides of every operator), sampled; biased towards linear shapes
    def rtree(d):
        k = rng.random()
        if d == 0 or k < 0.22:
            return rng.choice(leaves(names))
        if k < 0.32:
            sub = rtree(d - 1)
            return ("neg", sub) if sub[0] != "neg" else sub
        op = rng.choice(["+", "+", "-", "-", "*", "/"])
        if op == "*":
            return ("*", ("l", None), rtree(d - 1)) if rng.random() < 0.5 else ("*", rtree(d - 1), ("l", None)) if rng.random() < 0.8 else ("*", rtree(d - 1), rtree(d - 1))
        if op == "/":
            return ("/", rtree(d - 1), ("l", None)) if rng.random() < 0.85 else ("/", rtree(d - 1), rtree(d - 1))
        return (op, rtree(d - 1), rtree(d - 1))

    deep_acc = deep_n = 0
    for _ in range(6000 if thorough else 400):
        t = number_literals(rtree(rng.choice([3, 3, 4])), [0])
        s = render(t, full=rng.random() < 0.4, parent="top")
        if s in seen or _count_lits(t) > 10:
            continue
        seen.add(s)
        res = _one(check, [("expr", t, None)], s, names, _count_lits(t), tmo, record=False)
        deep_n += 1
        deep_acc += res == "accepted"
    check.info["deep_templates"] = {"sampled": deep_n, "accepted_and_proved": deep_acc}

    # lhs = rhs, several constraints, the three specification forms
    lin = [number_literals(t, [0]) for t in gen(1, names) if syn_kind(t) <= 1]
    rng.shuffle(lin)
    pairs = list(itertools.islice(itertools.product(lin, lin), 0, None))
    rng.shuffle(pairs)
    for l, r in pairs[: (400 if thorough else 80)]:
        cnt = [0]
        l2 = number_literals(_strip(l), cnt)
        r2 = number_literals(_strip(r), cnt)
        s = f"{render(l2, False, 'top')} = {render(r2, False, 'top')}"
        _one(check, [("eq", l2, r2)], s, names, cnt[0], tmo, record=False)
    triples = [tuple(rng.sample(lin, 3)) for _ in range(60 if thorough else 15)]
    for tr in triples:
        cnt = [0]
        parts = []
        for k, t in enumerate(tr):
            t2 = number_literals(_strip(t), cnt)
            if k == 1:
                r2 = number_literals(("l", None), cnt)
                parts.append(("eq", t2, r2))
            else:
                parts.append(("expr", t2, None))
        strs = [render(p[1], False, "top") + (f" = {render(p[2], False, 'top')}" if p[0] == "eq" else "") for p in parts]
        _one(check, parts, ", ".join(strs), names, cnt[0], tmo, record=False, form="string")
        _one(check, parts, strs, names, cnt[0], tmo, record=False, form="list")
        # mapping form: expression -> value (value symbolic)
        dparts = [("eq", p[1], ("l", cnt[0] + 1 + i)) for i, p in enumerate(parts)]
        _one(check, dparts, {render(p[1], False, "top"): 100 + p[2][1] for p in dparts}, names, cnt[0] + 3, tmo, record=False, form="dict")

    # the same constraint written more than once is still one row per written constraint, in the order written (every form)
    for tr in [tuple(rng.sample(lin, 2)) for _ in range(30 if thorough else 8)] + [(("v", "a"), ("v", "b")), (("+", ("v", "a"), ("v", "b")), ("v", "a"))]:
        cnt = [0]
        t0 = number_literals(_strip(tr[0]), cnt)
        t1 = number_literals(_strip(tr[1]), cnt)
        r1 = number_literals(("l", None), cnt)
        for parts in ([("expr", t0, None), ("eq", t1, r1), ("expr", t0, None)], [("eq", t1, r1), ("eq", t1, r1)], [("expr", t0, None), ("expr", t0, None), ("eq", t1, r1), ("expr", t0, None)]):
            strs = [render(p[1], False, "top") + (f" = {render(p[2], False, 'top')}" if p[0] == "eq" else "") for p in parts]
            _one(check, parts, ", ".join(strs), names, cnt[0], tmo, record=False, form="string")
            _one(check, parts, strs, names, cnt[0], tmo, record=False, form="list")

    check.info["templates"] = {
        "accepted_and_proved": accepted,
        "rejected_not_linear": rejected_nonlinear,
        "rejected_although_syntactically_linear_FormulaSyntaxError": rejected_linear_syntax,
        "rejected_although_syntactically_linear_other": rejected_linear_other,
    }
    if accepted == 0:
        check.harness_error("no template was accepted: the check would be vacuous")


def _strip(t):
    if t[0] == "l":
        return ("l", None)
    if t[0] == "v":
        return t
    if t[0] == "neg":
        return ("neg", _strip(t[1]))
    return (t[0], _strip(t[1]), _strip(t[2]))


def _count_lits(t):
    if t[0] == "l":
        return 1
    if t[0] == "v":
        return 0
    return sum(_count_lits(c) for c in t[1:])


def _one(check: Check, parts, spec, names, nlits, tmo, record, form="string"):
    """parts: list of ("expr", tree, None) | ("eq", lhs, rhs); spec: what is handed to the library."""
    lit_syms = {i: z3.Real(f"L{i}") for i in range(1, nlits + 1)}
    mapping = {100 + i: SFloat(lit_syms[i]) for i in lit_syms}
    xs = {n: z3.Real(f"x_{n}") for n in names}
    outcome = {}

    def fn():
        with symbolic_literals(mapping):
            if form == "dict":
                lc = LinearConstraints.from_spec({k: mapping[v] for k, v in spec.items()}, variable_names=names)
            else:
                lc = LinearConstraints.from_spec(spec, variable_names=names)
        return lc

    def pre():
        out = []
        for p in parts:
            for tree in (p[1], p[2]):
                if tree is None:
                    continue
                for d in divisors(tree, lit_syms):
                    out.append(ref_eval(d, xs, lit_syms) != 0)
        return out

    def claims(lc):
        A, b = lc.constraint_matrix, lc.constraint_values
        outcome["r"] = "accepted"
        shape_ok = bool(A.shape == (len(parts), len(names)) and b.shape == (len(parts),))
        yield "one row per constraint, in order", shape_ok
        if not shape_ok:
            return
        for i, p in enumerate(parts):
            want = ref_eval(p[1], xs, lit_syms)
            if p[0] == "eq":
                want = want - ref_eval(p[2], xs, lit_syms)
            got = sum(lift(A[i, j]) * xs[n] for j, n in enumerate(names)) - lift(b[i])
            yield f"row {i}: A.x - b == lhs(x) - rhs(x)", got == want

    def on_exception(e, pc):
        if isinstance(e, REJECTIONS):
            outcome["r"] = type(e).__name__
            nonlinear = any(syn_kind(p[1]) == 2 or (p[2] is not None and syn_kind(p[2]) == 2) for p in parts)
            check.obligation("constraints/rejected", "ground")
            return []
        outcome["r"] = type(e).__name__
        p = {"kind": "c16_spec", "spec": spec if form != "dict" else {k: v for k, v in spec.items()}, "form": form, "names": names,
             "parts": parts, "lits": {str(i): 2.25 + 1.5 * i for i in lit_syms}, "x": {n: 1.75 - 2.35 * k for k, n in enumerate(names)}}  # generic NON-integer values: dtype truncation must show
        bad = replays.run(p)
        if bad:
            check.violation(f"constraint::{type(e).__name__}", bad, p)
        else:
            check.harness_error(f"constraint spec {spec!r}: {type(e).__name__}: {e} (does not reproduce natively)")
        return []

    def rep(model, label):
        lits = {str(i): model_value(model, lit_syms[i]) for i in lit_syms}
        x = {n: model_value(model, xs[n]) for n in names}
        p = {"kind": "c16_spec", "spec": spec, "form": form, "names": names, "parts": parts, "lits": lits, "x": x}
        generic = dict(p, lits={str(i): 2.25 + 1.5 * i for i in lit_syms}, x={n: 1.75 - 2.35 * k for k, n in enumerate(names)})
        for cand in (p, generic):
            bad = replays.run(cand)
            if bad:
                return (f"constraint({form})", bad, cand)
        return None

    pr = pre()
    if pr:
        from sr.symreal import satisfiable

        r, _ = satisfiable(pr, logic=None, timeout_ms=2000)
        if r == "unsat":
            check.obligation("constraints/undefined-expression-skipped", "ground")
            return "undefined"
    rig.run_sym(check, "constraints", fn, claims, pre=pr, on_exception=on_exception, replay=rep, timeout_ms=tmo,
                case_id=f"{form}:{spec}", sample={"spec": spec, "literals": "symbolic reals", "x": "symbolic"}, record=record)
    return outcome.get("r")
