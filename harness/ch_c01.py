"""C01 — CrossHair harnesses for the formula algebra (each function returns True iff the property holds for its input)."""
from typing import List

from formulaic.parser import DefaultFormulaParser, DefaultOperatorResolver
from formulaic.parser.algos.tokens_to_ast import tokens_to_ast
from formulaic.parser.types import Operator, OperatorResolver, Token

from harness import parser_common as pc

for _k, _v in (("__SHARD__", 0), ("__N__", 5), ("__CFG__", 0)):
    globals().setdefault(_k, _v)


def _pick(x, lo, hi):
    for v in range(lo, hi):
        if x == v:
            return v
    return hi


try:
    from crosshair.tracers import NoTracing as _NoTracing
except Exception:  # pragma: no cover
    import contextlib

    _NoTracing = contextlib.nullcontext

ALPHABETS = {"SIGMA": pc.SIGMA, "SIGMA16": pc.SIGMA16, "SIGMA9": pc.SIGMA9}

# parser configurations other than the default one: (include_intercept, flags)
CONFIGS = [(ii, tuple(f for f, on in zip(("TWOSIDED", "MULTIPART", "MULTISTAGE"), bits) if on))
           for ii in (True, False) for bits in [(a, b, c) for a in (1, 0) for b in (1, 0) for c in (0, 1)]]


def _verdict(symbols, cfg):
    ii, flags = CONFIGS[cfg]
    v, d = pc.compare(symbols, include_intercept=ii, flags=flags, available=pc.AVAILABLE)
    return v in ("agree", "dontcare")


def stream1(k0: int, cfg: int) -> bool:
    """
    pre: 0 <= k0 < 19 and 0 <= cfg < 16 and cfg == __SHARD__
    post: _
    """
    A = pc.SIGMA
    return _verdict([A[_pick(k0, 0, 18)]], _pick(cfg, 0, 15))


def stream2(k0: int, k1: int, cfg: int) -> bool:
    """
    pre: 0 <= k0 < 19 and 0 <= k1 < 19 and 0 <= cfg < 16 and cfg == __SHARD__
    post: _
    """
    A = pc.SIGMA
    return _verdict([A[_pick(k0, 0, 18)], A[_pick(k1, 0, 18)]], _pick(cfg, 0, 15))


def stream3(k0: int, k1: int, k2: int) -> bool:
    """
    pre: 0 <= k0 < 19 and 0 <= k1 < 19 and 0 <= k2 < 19 and k0 == __SHARD__
    post: _
    """
    A = pc.SIGMA
    return _verdict([A[_pick(k0, 0, 18)], A[_pick(k1, 0, 18)], A[_pick(k2, 0, 18)]], 0)


def stream3cfg(k0: int, k1: int, k2: int, cfg: int) -> bool:
    """
    pre: 0 <= k0 < 19 and 0 <= k1 < 19 and 0 <= k2 < 19 and cfg == __CFG__ and k0 == __SHARD__
    post: _
    """
    A = pc.SIGMA
    return _verdict([A[_pick(k0, 0, 18)], A[_pick(k1, 0, 18)], A[_pick(k2, 0, 18)]], __CFG__)


def stream4(k0: int, k1: int, k2: int, k3: int) -> bool:
    """
    pre: 0 <= k0 < 16 and 0 <= k1 < 16 and 0 <= k2 < 16 and 0 <= k3 < 16 and k0 * 16 + k1 == __SHARD__
    post: _
    """
    A = pc.SIGMA16
    return _verdict([A[_pick(k0, 0, 15)], A[_pick(k1, 0, 15)], A[_pick(k2, 0, 15)], A[_pick(k3, 0, 15)]], 0)


def stream5(k0: int, k1: int, k2: int, k3: int, k4: int) -> bool:
    """
    pre: 0 <= k0 < 9 and 0 <= k1 < 9 and 0 <= k2 < 9 and 0 <= k3 < 9 and 0 <= k4 < 9 and k0 * 9 + k1 == __SHARD__
    post: _
    """
    A = pc.SIGMA9
    return _verdict([A[_pick(k, 0, 8)] for k in (k0, k1, k2, k3, k4)], 0)


# longer two-sided / multi-part formulas assembled from side templates (reaches groupings left of '~', '|' on both sides, '.' with grouped lhs)
LHS_T = ["a", "( a )", "( a + b )", "a | b", "( a ) | b", "a + b", "( ( a ) )", "a : b", "- 1 + a", "( a - 1 )"]
RHS_T = ["b", "( b )", "b + c", "b | c", "b - 1", "0 + b | c", ".", ". - b", "( b + c ) : a", "b | c - 1", "( b | c )", "b * c"]


def sides(i: int, j: int, ii: bool) -> bool:
    """
    pre: 0 <= i < 10 and 0 <= j < 12 and i == __SHARD__
    post: _
    """
    i, j = _pick(i, 0, 9), _pick(j, 0, 11)
    syms = LHS_T[i].split(" ") + ["~"] + RHS_T[j].split(" ")
    v, d = pc.compare(syms, include_intercept=bool(ii), available=pc.AVAILABLE)
    return v in ("agree", "dontcare")


# ------------------------------------------------------------------------------------------------ sign runs (CH-sym)

SIGN_ALPHABET = "+-:*/~|^"


def _sign_reference(sym: str):
    """every maximal run of >= 2 signs replaced by one sign of its parity; whole symbol first if it is an operator"""
    table = {"+", "-", "*", "/", ":", "**", "^", "~", "|", "in", "."}
    if sym in table:
        return [sym]
    res, i = "", 0
    while i < len(sym):
        if sym[i] in "+-":
            j = i
            while j < len(sym) and sym[j] in "+-":
                j += 1
            seg = sym[i:j]
            res += (("-" if seg.count("-") % 2 else "+") if len(seg) >= 2 else seg)
            i = j
        else:
            res += sym[i]
            i += 1
    if res in table:
        return [res]
    return list(res)


def signrun(n: int, c0: int, c1: int, c2: int, c3: int, c4: int) -> bool:
    """
    pre: 1 <= n <= __N__ and 0 <= c0 < 8 and 0 <= c1 < 8 and 0 <= c2 < 8 and 0 <= c3 < 8 and 0 <= c4 < 8 and c0 == __SHARD__
    post: _
    """
    n = _pick(n, 1, __N__)
    s = "".join(SIGN_ALPHABET[_pick(c, 0, 7)] for c in (c0, c1, c2, c3, c4)[:n])
    return _signrun_ok(s)


def _signrun_ok(s: str) -> bool:
    r = DefaultOperatorResolver()
    got = []
    for tok, ops in r.resolve(Token(s, kind="operator")):
        ops = list(ops)
        got.append(ops[0].symbol)
    return got == _sign_reference(s)


# ------------------------------------------------------------------------------------------------ shunting-yard engine (CH-sym: precedences unbounded)

class _Res(OperatorResolver):
    def __init__(self, ops):
        self._ops = ops

    @property
    def operators(self):
        return self._ops


def _ref_tree(operands, ops, prec, left):
    """Reference: the operator applied last is the one of lowest precedence (ties: rightmost if left-assoc, leftmost if right-assoc)."""
    if not ops:
        return operands[0]
    best = 0
    for i in range(1, len(ops)):
        if prec[ops[i]] < prec[ops[best]] or (prec[ops[i]] == prec[ops[best]] and left[ops[i]]):
            best = i
    return [ops[best], _ref_tree(operands[: best + 1], ops[:best], prec, left), _ref_tree(operands[best + 1:], ops[best + 1:], prec, left)]


def shunting(p1: int, p2: int, p3: int, l1: bool, l2: bool, l3: bool, shape: int) -> bool:
    """
    pre: 0 <= shape < 9
    pre: (p1 != p2 or l1 == l2) and (p1 != p3 or l1 == l3) and (p2 != p3 or l2 == l3)
    post: _
    """
    shape = _pick(shape, 0, 8)
    names = ["@", "#", "$"]
    prec = dict(zip(names, (p1, p2, p3)))
    left = dict(zip(names, (l1, l2, l3)))
    res = _Res([Operator(n, arity=2, precedence=prec[n], associativity="left" if left[n] else "right") for n in names])
    seqs = [["@", "#", "$"], ["@", "@", "#"], ["#", "@", "#"], ["$", "$", "$"], ["@", "#"], ["#", "$", "@"], ["@"], ["$", "#", "#"], ["#", "#", "@"]]
    ops = seqs[shape]
    operands = ["a", "b", "c", "d"][: len(ops) + 1]
    toks = []
    for i, o in enumerate(operands):
        toks.append(Token(o, kind="name"))
        if i < len(ops):
            toks.append(Token(ops[i], kind="operator"))
    ast = tokens_to_ast(toks, res)
    return ast.flatten(str_args=True) == _ref_tree(operands, ops, prec, left)


def shunting_paren(p1: int, p2: int, l1: bool, l2: bool, where: int) -> bool:
    """
    pre: 0 <= where < 2
    pre: p1 != p2 or l1 == l2
    post: _
    """
    where = _pick(where, 0, 1)
    prec = {"@": p1, "#": p2}
    left = {"@": l1, "#": l2}
    res = _Res([Operator(n, arity=2, precedence=prec[n], associativity="left" if left[n] else "right") for n in ("@", "#")])
    T = lambda s, k: Token(s, kind=k)
    if where == 0:  # ( a @ b ) # c
        toks = [T("(", "context"), T("a", "name"), T("@", "operator"), T("b", "name"), T(")", "context"), T("#", "operator"), T("c", "name")]
        want = ["#", ["@", "a", "b"], "c"]
    else:  # a @ ( b # c )
        toks = [T("a", "name"), T("@", "operator"), T("(", "context"), T("b", "name"), T("#", "operator"), T("c", "name"), T(")", "context")]
        want = ["@", "a", ["#", "b", "c"]]
    return tokens_to_ast(toks, res).flatten(str_args=True) == want


# ------------------------------------------------------------------------------------------------ documented identities and specification forms (CH-enum)

IDENTITIES = [
    ("{x} * {y}", "{x} + {y} + {x}:{y}"),
    ("{x} / {y}", "{x} + {x}:{y}"),
    ("{y} %in% {x}", "{x} / {y}"),
    ("({x} + {y} + {z}) ** 2", "{x} + {y} + {z} + {x}:{y} + {x}:{z} + {y}:{z}"),
    ("({x} + {y}) ^ 2", "({x} + {y}) ** 2"),
    ("({x} + {y}) / {z}", "{x} + {y} + {x}:{y}:{z}"),
    ("{x} / ({y} + {z})", "{x} + {x}:{y} + {x}:{z}"),
    ("{x} / {y} / {z}", "{x} + {x}:{y} + {x}:{y}:{z}"),
    ("{x} * {y} * {z}", "{x} + {y} + {z} + {x}:{y} + {x}:{z} + {y}:{z} + {x}:{y}:{z}"),
    ("{x} + {y} - {x}", "{y} - {x}"),
    ("{x}:{y}", "{y}:{x}"),
    ("w ~ {x} * {y} | {z}", "w ~ {x} + {y} + {x}:{y} | {z}"),
    # documented left-associativity / precedence, against explicit grouping and against the documented expansions
    ("{x} * {y} / {z}", "({x} * {y}) / {z}"),
    ("{x} * {y} / {z}", "{x} + {y} + {x}:{y} + {x}:{y}:{z}"),
    ("{x} %in% {y} / {z}", "({x} %in% {y}) / {z}"),
    ("{x} / {y} * {z}", "({x} / {y}) * {z}"),
    ("{x} / {y} %in% {z}", "({x} / {y}) %in% {z}"),
    ("{x} - {y} + {z}", "({x} - {y}) + {z}"),
    ("{x} : {y} * {z}", "({x}:{y}) * {z}"),
    ("{x} * {y} : {z}", "{x} * ({y}:{z})"),
    ("{x} / {y} : {z}", "{x} / ({y}:{z})"),
    ("{x} + {y} : {z} ** 2", "{x} + ({y}:({z} ** 2))"),
    ("{x} + {y} * {z}", "{x} + ({y} * {z})"),
    # higher powers, distributivity of ':', removal after expansion, intercept arithmetic, nesting inside parts
    ("({x} + {y} + {z}) ** 3", "{x} * {y} * {z}"),
    ("({x} + {y} + {z}) ** 4", "({x} + {y} + {z}) ** 3"),
    ("({x} + {y}) ** 1", "{x} + {y}"),
    ("{x}:({y} + {z})", "{x}:{y} + {x}:{z}"),
    ("({x} + {y}):({z} + {x})", "{x}:{z} + {x}:{x} + {y}:{z} + {y}:{x}"),
    ("{x} * {y} - {x}:{y}", "{x} + {y} - {x}:{y}"),
    ("({x} + {y} + {z}) ** 2 - {y}:{z}", "{x} + {y} + {z} + {x}:{y} + {x}:{z} - {y}:{z}"),
    ("{x} * {y} - ({x} + {y})", "{x}:{y} - {x} - {y}"),
    ("{x} + 0", "{x} - 1"),
    ("0 + {x} + {y}", "{x} + {y} - 1"),
    ("{x} - 0", "{x} + 1"),
    ("-1 + {x}", "{x} - 1"),
    ("{x} + {y} - 1 + 1", "{x} + {y}"),
    ("w ~ {x} / {y} | {y} * {z} | ({x} + {z}) ** 2", "w ~ {x} + {x}:{y} | {y} + {z} + {y}:{z} | {x} + {z} + {x}:{z}"),
    ("{x} %in% {y}", "{y} + {y}:{x}"),
    ("({x} + {y}) %in% {z}", "{z} / ({x} + {y})"),
    ("{x} : {y} : {z}", "{z} : ({y} : {x})"),
    # exponent smaller than the number of terms: interactions up to THAT order only
    ("({x} + {y} + {z} + d) ** 3", "{x} + {y} + {z} + d + {x}:{y} + {x}:{z} + {x}:d + {y}:{z} + {y}:d + {z}:d + {x}:{y}:{z} + {x}:{y}:d + {x}:{z}:d + {y}:{z}:d"),
    ("({x} + {y} + {z} + d + e) ** 2", "{x} + {y} + {z} + d + e + {x}:{y} + {x}:{z} + {x}:d + {x}:e + {y}:{z} + {y}:d + {y}:e + {z}:d + {z}:e + d:e"),
    ("({x} + {y} + {z} + d) ^ 3 - {x}:{y}:{z}", "({x} + {y} + {z} + d) ** 2 + {x}:{y}:d + {x}:{z}:d + {y}:{z}:d - {x}:{y}:{z}"),
]


def _norm(spec, **kw):
    from formulaic.formula import Formula, SimpleFormula

    f = Formula.from_spec(spec, **kw)
    if isinstance(f, SimpleFormula):
        return {"root": sorted(pc.norm_terms(f))}
    st = pc.norm_structure(f)

    def srt(o):
        if isinstance(o, dict):
            return {k: srt(v) for k, v in o.items()}
        if isinstance(o, tuple):
            return tuple(srt(v) for v in o)
        return sorted(o)

    return srt(st)


def identity(i: int, x: int, y: int, z: int) -> bool:
    """
    pre: 0 <= i < 43 and 0 <= x < 3 and 0 <= y < 3 and 0 <= z < 3 and i == __SHARD__
    post: _
    """
    i, x, y, z = _pick(i, 0, 42), _pick(x, 0, 2), _pick(y, 0, 2), _pick(z, 0, 2)
    names = ["a", "b", "c"]
    l, r = IDENTITIES[i]
    sub = dict(x=names[x], y=names[y], z=names[z])
    return _norm(l.format(**sub)) == _norm(r.format(**sub))


QUOTED_ATOMS = ["`a:b`", "`a+b`", "`a b`", "`b:a`", "`a*b`", "`a.1`", "`c - 1`", "`(a)`"]


def _rename(o, old, new):
    if isinstance(o, dict):
        return {k: _rename(v, old, new) for k, v in o.items()}
    if isinstance(o, tuple) and (not o or not isinstance(o[0], str)):
        return tuple(_rename(v, old, new) for v in o)
    if isinstance(o, list):
        return sorted(tuple(sorted(new if f == old else f for f in t)) for t in o)
    return o


def quoted_atom(i: int, q: int, y: int, z: int) -> bool:
    """
    pre: 0 <= i < 40 and 0 <= q < 8 and 0 <= y < 3 and 0 <= z < 3 and i == __SHARD__
    post: _
    """
    # a back-tick quoted name is ONE variable whatever characters it holds: every documented expansion treats it exactly like a
    # plain name (the reading with a fresh name q0, renamed afterwards) - it never merges with the interaction / sum it spells
    i, q, y, z = _pick(i, 0, 39), _pick(q, 0, 7), _pick(y, 0, 2), _pick(z, 0, 2)
    names = ["a", "b", "c"]
    l, _ = IDENTITIES[i]
    got = _norm(l.format(x=QUOTED_ATOMS[q], y=names[y], z=names[z]))
    want = _norm(l.format(x="q0", y=names[y], z=names[z]))
    return _rename(got, None, None) == _rename(want, "q0", QUOTED_ATOMS[q][1:-1])


FORMS = [
    # (string, list of term strings, lhs/rhs keyword form or None)
    ("{x} + {y}:{z}", ["1", "{x}", "{y}:{z}"], None),
    ("0 + {x} * {y}", ["{x}", "{y}", "{x}:{y}"], None),
    ("w ~ {x} + {y}", None, {"lhs": "w", "rhs": "1 + {x} + {y}"}),
    ("w ~ 0 + {x}:{y}", None, {"lhs": ["w"], "rhs": ["{x}:{y}"]}),
    ("{x} / {y}", ["1", "{x}", "{x}:{y}"], None),
]


def forms(i: int, x: int, y: int, z: int) -> bool:
    """
    pre: 0 <= i < 5 and 0 <= x < 3 and 0 <= y < 3 and 0 <= z < 3
    post: _
    """
    from formulaic.formula import StructuredFormula

    i, x, y, z = _pick(i, 0, 4), _pick(x, 0, 2), _pick(y, 0, 2), _pick(z, 0, 2)
    names = ["a", "b", "c"]
    sub = dict(x=names[x], y=names[y], z=names[z])
    s, lst, kw = FORMS[i]
    if len({x, y, z}) < 3:
        return True  # a list of terms is a list: coinciding names would make it hold duplicates, which a formula string cannot express
    want = _norm(s.format(**sub))
    if lst is not None:
        if _norm([t.format(**sub) for t in lst]) != want:
            return False
    if kw is not None:
        fmt = lambda v: v.format(**sub) if isinstance(v, str) else [t.format(**sub) for t in v]
        f = StructuredFormula(**{k: fmt(v) for k, v in kw.items()})
        got = pc.norm_structure(f)
        got = {k: sorted(v) for k, v in got.items()}
        if got != want:
            return False
    return True


def explain(fname, call):
    args = call["args"] if call else []
    try:
        if fname.startswith("stream"):
            alpha = {"stream4": pc.SIGMA16, "stream5": pc.SIGMA9}.get(fname, pc.SIGMA)
            n = {"stream1": 1, "stream2": 2, "stream3": 3, "stream3cfg": 3, "stream4": 4, "stream5": 5}[fname]
            syms = [alpha[k] for k in args[:n]]
            cfg = args[n] if len(args) > n else 0
            ii, flags = CONFIGS[cfg]
            v, d = pc.compare(syms, include_intercept=ii, flags=flags, available=pc.AVAILABLE)
            return f"{v}: formula {' '.join(syms)!r} (include_intercept={ii}, flags={list(flags)}): {d}"
        if fname == "signrun":
            r = DefaultOperatorResolver()
            sym = "".join(SIGN_ALPHABET[c] for c in args[1:6][: args[0]])
            got = [list(ops)[0].symbol for _, ops in r.resolve(Token(sym, kind="operator"))]
            return f"sign-run: resolve({sym!r}) yields {got}, parity collapsing gives {_sign_reference(sym)}"
        if fname == "sides":
            syms = LHS_T[args[0]].split(" ") + ["~"] + RHS_T[args[1]].split(" ")
            v, d = pc.compare(syms, include_intercept=bool(args[2]), available=pc.AVAILABLE)
            return f"{v}: formula {' '.join(syms)!r} (include_intercept={bool(args[2])}): {d}"
        if fname == "identity":
            l, r = IDENTITIES[args[0]]
            sub = dict(x="abc"[args[1]], y="abc"[args[2]], z="abc"[args[3]])
            return f"identity: {l.format(**sub)!r} gives {_norm(l.format(**sub))} but {r.format(**sub)!r} gives {_norm(r.format(**sub))}"
        if fname == "quoted_atom":
            l, _ = IDENTITIES[args[0]]
            f = l.format(x=QUOTED_ATOMS[args[1]], y="abc"[args[2]], z="abc"[args[3]])
            return f"quoted-atom: {f!r} gives {_norm(f)}, the same formula with a plain name in place of {QUOTED_ATOMS[args[1]]} gives {_norm(l.format(x='q0', y='abc'[args[2]], z='abc'[args[3]]))}"
    except Exception as e:
        return f"{fname}{args}: {type(e).__name__}: {e}"
    return f"{fname} fails for {args}"
