"""
Native replays: every counterexample is re-executed here with ordinary float / str data against the plain build
(no engine loaded, nothing patched).  `run(payload)` returns a description of the violation if it reproduces,
None otherwise.  `python -m harness.replays <file>` replays a stored counterexample (exit 1 = reproduces).
"""

from __future__ import annotations

import json
import math
import sys

import numpy

REPLAYS = {}


def replay(kind):
    def deco(f):
        REPLAYS[kind] = f
        return f

    return deco


def run(payload: dict):
    try:
        return REPLAYS[payload["kind"]](payload)
    except KeyError:
        raise
    except Exception as e:  # a native crash while replaying is itself worth reporting by the caller
        return f"replay raised {type(e).__name__}: {e}"


def _close(a, b, tol=1e-7):
    return abs(a - b) <= tol * max(1.0, abs(a), abs(b))


# ------------------------------------------------------------------------------------------------ C13


@replay("c13_scale_fit")
def _(p):
    from formulaic.transforms import scale

    x = numpy.array(p["x"], dtype=float)
    n = len(x)
    st = {}
    out = scale(x, center=p["center"], scale=p["scale"], ddof=p["ddof"], _state=st)
    if not numpy.all(numpy.isfinite(out)):
        return None  # outside the domain (zero variance)
    if p["center"] and not _close(float(out.sum()), 0.0, 1e-6):
        return f"scale(center=True): sum of output = {out.sum()}"
    if p["scale"] and not _close(float((out**2).sum()), n - p["ddof"], 1e-6):
        return f"scale(scale=True, ddof={p['ddof']}): sum of squares = {(out**2).sum()} != {n - p['ddof']}"
    if not p["scale"] and not numpy.allclose(out, x - x.mean()):
        return "scale(scale=False) is not x - mean"
    if st.get("ddof") != p["ddof"]:
        return f"recorded ddof {st.get('ddof')} != {p['ddof']}"
    return None


@replay("c13_center_fit")
def _(p):
    from formulaic.transforms import center

    x = numpy.array(p["x"], dtype=float)
    out = center(x, _state={})
    if not numpy.allclose(out, x - x.mean(), atol=1e-9 * max(1, abs(x).max())):
        return f"center(x) != x - mean: {out}"
    return None


@replay("c13_standardize_fit")
def _(p):
    from formulaic.transforms import TRANSFORMS

    x = numpy.array(p["x"], dtype=float)
    out = TRANSFORMS["standardize"](x, _state={})
    if not numpy.all(numpy.isfinite(out)):
        return None
    if not _close(float(out.sum()), 0, 1e-6) or not _close(float((out**2).sum()), len(x), 1e-6):
        return f"standardize: sum={out.sum()} sumsq={(out**2).sum()} (want 0, {len(x)})"
    return None


@replay("c13_scale_state")
def _(p):
    from formulaic.transforms import scale

    y = numpy.array(p["y"], dtype=float)
    st = {"ddof": 1, "center": p["C"], "scale": p["S"]}
    if p["S"] is not None and p["S"] == 0:
        return None
    out = scale(y, center=p["flags"][0], scale=p["flags"][1], ddof=0, _state=st)
    want = y.copy()
    if p["C"] is not None:
        want = want - p["C"]
    if p["S"] is not None:
        want = want / p["S"]
    if not numpy.allclose(out, want, rtol=1e-9, atol=1e-12):
        return f"scale with recorded state gave {out}, want {want}"
    if st != {"ddof": 1, "center": p["C"], "scale": p["S"]}:
        return f"state mutated: {st}"
    out1 = scale(y[1:], center=p["flags"][0], scale=p["flags"][1], ddof=0, _state=st)
    if not numpy.allclose(out1, want[1:], rtol=1e-9, atol=1e-12):
        return "row depends on the other rows"
    return None


@replay("c13_poly_fit")
def _(p):
    from formulaic.transforms import poly

    x = numpy.array(p["x"], dtype=float)
    if len(set(x.tolist())) <= p["degree"]:
        return None
    out = numpy.asarray(poly(x, degree=p["degree"], _state={}))
    if not numpy.all(numpy.isfinite(out)):
        return None
    g = out.T @ out
    if not numpy.allclose(g, numpy.eye(p["degree"]), atol=1e-6):
        return f"poly columns not orthonormal: gram={g.tolist()}"
    if not numpy.allclose(out.sum(axis=0), 0, atol=1e-6):
        return f"poly columns not orthogonal to the constant: {out.sum(axis=0)}"
    return None


def _poly_ref(y, alpha, norms2, degree):
    p = [1.0, y - alpha[0]]
    for k in range(2, degree + 1):
        p.append((y - alpha[k - 1]) * p[k - 1] - (norms2[k - 1] / norms2[k - 2]) * p[k - 2])
    return [p[j] / math.sqrt(norms2[j]) for j in range(1, degree + 1)]


@replay("c13_poly_state")
def _(p):
    from formulaic.transforms import poly

    deg = p["degree"]
    if any(v <= 0 for v in p["norms2"]):
        return None
    st = {"alpha": dict(enumerate(p["alpha"])), "norms2": dict(enumerate(p["norms2"]))}
    y = numpy.array(p["y"], dtype=float)
    out = numpy.asarray(poly(y, degree=deg, _state=st))
    for i in range(len(y)):
        want = _poly_ref(y[i], p["alpha"], p["norms2"], deg)
        if not numpy.allclose(out[i], want, rtol=1e-7, atol=1e-9):
            return f"poly with recorded state: row {i} = {out[i].tolist()}, recurrence gives {want}"
    out1 = numpy.asarray(poly(y[1:], degree=deg, _state=st))
    if not numpy.allclose(out1[0], out[1], rtol=1e-9, atol=1e-12):
        return "poly row depends on other rows"
    if st != {"alpha": dict(enumerate(p["alpha"])), "norms2": dict(enumerate(p["norms2"]))}:
        return "poly mutated the recorded state"
    return None


@replay("c13_poly_nan")
def _(p):
    from formulaic.transforms import poly

    xs = list(p["x"])
    if len(set(xs)) < 3:
        return None
    full = list(xs)
    full.insert(p["pos"], float("nan"))
    out = numpy.asarray(poly(numpy.array(full), degree=2, _state={}))
    ref = numpy.asarray(poly(numpy.array(xs), degree=2, _state={}))
    if not numpy.all(numpy.isnan(out[p["pos"]])):
        return f"NaN row did not propagate: {out[p['pos']]}"
    rest = numpy.delete(out, p["pos"], axis=0)
    if not numpy.allclose(rest, ref, atol=1e-8):
        return "non-null rows differ from the fit on the non-null subvector"
    return None


@replay("c13_poly_raw")
def _(p):
    from formulaic.transforms import poly

    x = numpy.array(p["x"], dtype=float)
    out = numpy.asarray(poly(x, degree=3, raw=True))
    want = numpy.stack([x, x**2, x**3], axis=1)
    return None if numpy.allclose(out, want) else f"poly(raw=True) = {out.tolist()}"


_REF = {
    "log": math.log,
    "log2": math.log2,
    "log10": math.log10,
    "exp": math.exp,
    "exp2": lambda v: 2.0**v,
    "exp10": lambda v: 10.0**v,
}


@replay("c13_elementwise")
def _(p):
    from formulaic.transforms import TRANSFORMS

    pts = [p["x"], 0.5, 1.0, 2.0, 3.0]
    for v in pts:
        if p["name"].startswith("log") and v <= 0:
            continue
        if abs(v) > 50:
            continue
        got = float(TRANSFORMS[p["name"]](numpy.array([v]))[0])
        want = _REF[p["name"]](v)
        if not _close(got, want, 1e-9):
            return f"{p['name']}({v}) = {got}, the function of that name gives {want}"
    return None


@replay("c13_inverse_pair")
def _(p):
    from formulaic.transforms import TRANSFORMS

    for v in [p["x"], 0.5, 1.0, 2.0, 3.0]:
        if abs(v) > 50:
            continue
        got = float(TRANSFORMS[p["log"]](TRANSFORMS[p["exp"]](numpy.array([v])))[0])
        if not _close(got, v, 1e-9):
            return f"{p['log']}({p['exp']}({v})) = {got}"
    return None


# ------------------------------------------------------------------------------------------------ CLI

if __name__ == "__main__":
    # extra replay kinds live next to their harnesses but must stay engine-free
    for extra in ("harness.replays_parser", "harness.replays_matrix"):
        try:
            __import__(extra)
        except ModuleNotFoundError:
            pass
    rec = json.load(open(sys.argv[1]))
    bad = run(rec["payload"])
    if bad:
        print(f"VIOLATION property={rec['property']} replay={sys.argv[1]}")
        print(f"  {bad}")
        sys.exit(1)
    print("does not reproduce")
    sys.exit(0)
