"""
Native replays: every counterexample is re-executed here with ordinary float / str data against the plain build
(no engine loaded, nothing patched).  `run(payload)` returns a description of the violation if it reproduces,
None otherwise.  `python -m harness.replays <file>` replays a stored counterexample (exit 1 = reproduces).
"""

from __future__ import annotations

import json
import math
import sys

import numpy

REPLAYS = {}


def replay(kind):
    def deco(f):
        REPLAYS[kind] = f
        return f

    return deco


def _load_extras():
    for extra in ("harness.replays_ch", "harness.replays_matrix"):
        try:
            __import__(extra)
        except ModuleNotFoundError as e:
            if extra not in str(e):
                raise


def run(payload: dict):
    if payload["kind"] not in REPLAYS:
        _load_extras()
    try:
        return REPLAYS[payload["kind"]](payload)
    except KeyError:
        raise
    except Exception as e:  # a native crash while replaying is itself worth reporting by the caller
        return f"replay-raised-{type(e).__name__}: {e}"


def _close(a, b, tol=1e-7):
    return abs(a - b) <= tol * max(1.0, abs(a), abs(b))


# ------------------------------------------------------------------------------------------------ C13


@replay("c13_scale_fit")
def _(p):
    from formulaic.transforms import scale

    x = numpy.array(p["x"], dtype=float)
    n = len(x)
    st = {}
    out = scale(x, center=p["center"], scale=p["scale"], ddof=p["ddof"], _state=st)
    if not numpy.all(numpy.isfinite(out)):
        return None  # outside the domain (zero variance)
    if p["center"] and not _close(float(out.sum()), 0.0, 1e-6):
        return f"mean-not-zero: scale(center=True) sum of output = {out.sum()}"
    if p["scale"] and not _close(float((out**2).sum()), n - p["ddof"], 1e-6):
        return f"sd-not-one: scale(scale=True, ddof={p['ddof']}) sum of squares = {(out**2).sum()} != {n - p['ddof']}"
    if not p["scale"] and not numpy.allclose(out, x - x.mean()):
        return "not-centered: scale(scale=False) is not x - mean"
    if st.get("ddof") != p["ddof"]:
        return f"ddof-not-recorded: recorded ddof {st.get('ddof')} != {p['ddof']}"
    return None


@replay("c13_center_fit")
def _(p):
    from formulaic.transforms import center

    x = numpy.array(p["x"], dtype=float)
    out = center(x, _state={})
    if not numpy.allclose(out, x - x.mean(), atol=1e-9 * max(1, abs(x).max())):
        return f"not-centered: center(x) != x - mean, {out}"
    return None


@replay("c13_standardize_fit")
def _(p):
    from formulaic.transforms import TRANSFORMS

    x = numpy.array(p["x"], dtype=float)
    out = TRANSFORMS["standardize"](x, _state={})
    if not numpy.all(numpy.isfinite(out)):
        return None
    if not _close(float(out.sum()), 0, 1e-6) or not _close(float((out**2).sum()), len(x), 1e-6):
        return f"not-standardized: sum={out.sum()} sumsq={(out**2).sum()} (want 0, {len(x)})"
    return None


@replay("c13_scale_state")
def _(p):
    from formulaic.transforms import scale

    y = numpy.array(p["y"], dtype=float)
    st = {"ddof": 1, "center": p["C"], "scale": p["S"]}
    if p["S"] is not None and p["S"] == 0:
        return None
    out = scale(y, center=p["flags"][0], scale=p["flags"][1], ddof=0, _state=st)
    want = y.copy()
    if p["C"] is not None:
        want = want - p["C"]
    if p["S"] is not None:
        want = want / p["S"]
    if not numpy.allclose(out, want, rtol=1e-9, atol=1e-12):
        return f"state-not-applied: scale with recorded state gave {out}, want {want}"
    if st != {"ddof": 1, "center": p["C"], "scale": p["S"]}:
        return f"state-mutated: {st}"
    out1 = scale(y[1:], center=p["flags"][0], scale=p["flags"][1], ddof=0, _state=st)
    if not numpy.allclose(out1, want[1:], rtol=1e-9, atol=1e-12):
        return "row-dependence: row depends on the other rows"
    return None


@replay("c13_poly_fit")
def _(p):
    from formulaic.transforms import poly

    x = numpy.array(p["x"], dtype=float)
    if len(set(x.tolist())) <= p["degree"]:
        return None
    out = numpy.asarray(poly(x, degree=p["degree"], _state={}))
    if not numpy.all(numpy.isfinite(out)):
        return None
    g = out.T @ out
    if not numpy.allclose(g, numpy.eye(p["degree"]), atol=1e-6):
        return f"not-orthonormal: poly gram={g.tolist()}"
    if not numpy.allclose(out.sum(axis=0), 0, atol=1e-6):
        return f"not-orthogonal-to-constant: poly column sums {out.sum(axis=0)}"
    return None


def _poly_ref(y, alpha, norms2, degree):
    p = [1.0, y - alpha[0]]
    for k in range(2, degree + 1):
        p.append((y - alpha[k - 1]) * p[k - 1] - (norms2[k - 1] / norms2[k - 2]) * p[k - 2])
    return [p[j] / math.sqrt(norms2[j]) for j in range(1, degree + 1)]


@replay("c13_poly_state")
def _(p):
    from formulaic.transforms import poly

    deg = p["degree"]
    if any(v <= 0 for v in p["norms2"]):
        return None
    st = {"alpha": dict(enumerate(p["alpha"])), "norms2": dict(enumerate(p["norms2"]))}
    y = numpy.array(p["y"], dtype=float)
    out = numpy.asarray(poly(y, degree=deg, _state=st))
    for i in range(len(y)):
        want = _poly_ref(y[i], p["alpha"], p["norms2"], deg)
        if not numpy.allclose(out[i], want, rtol=1e-7, atol=1e-9):
            return f"recurrence-mismatch: poly with recorded state, row {i} = {out[i].tolist()}, recurrence gives {want}"
    out1 = numpy.asarray(poly(y[1:], degree=deg, _state=st))
    if not numpy.allclose(out1[0], out[1], rtol=1e-9, atol=1e-12):
        return "row-dependence: poly row depends on other rows"
    if st != {"alpha": dict(enumerate(p["alpha"])), "norms2": dict(enumerate(p["norms2"]))}:
        return "state-mutated: poly mutated the recorded state"
    return None


@replay("c13_poly_nan")
def _(p):
    from formulaic.transforms import poly

    xs = list(p["x"])
    if len(set(xs)) < 3:
        return None
    full = list(xs)
    full.insert(p["pos"], float("nan"))
    out = numpy.asarray(poly(numpy.array(full), degree=2, _state={}))
    ref = numpy.asarray(poly(numpy.array(xs), degree=2, _state={}))
    if not numpy.all(numpy.isnan(out[p["pos"]])):
        return f"nan-not-propagated: {out[p['pos']]}"
    rest = numpy.delete(out, p["pos"], axis=0)
    if not numpy.allclose(rest, ref, atol=1e-8):
        return "nan-changes-other-rows: non-null rows differ from the fit on the non-null subvector"
    return None


@replay("c13_poly_raw")
def _(p):
    from formulaic.transforms import poly

    x = numpy.array(p["x"], dtype=float)
    out = numpy.asarray(poly(x, degree=3, raw=True))
    want = numpy.stack([x, x**2, x**3], axis=1)
    return None if numpy.allclose(out, want) else f"raw-powers-wrong: poly(raw=True) = {out.tolist()}"


_REF = {
    "log": math.log,
    "log2": math.log2,
    "log10": math.log10,
    "exp": math.exp,
    "exp2": lambda v: 2.0**v,
    "exp10": lambda v: 10.0**v,
}


@replay("c13_elementwise")
def _(p):
    from formulaic.transforms import TRANSFORMS

    pts = [p["x"], 0.5, 1.0, 2.0, 3.0]
    for v in pts:
        if p["name"].startswith("log") and v <= 0:
            continue
        if abs(v) > 50:
            continue
        got = float(TRANSFORMS[p["name"]](numpy.array([v]))[0])
        want = _REF[p["name"]](v)
        if not _close(got, want, 1e-9):
            return f"wrong-function: {p['name']}({v}) = {got}, the function of that name gives {want}"
    return None


@replay("c13_inverse_pair")
def _(p):
    from formulaic.transforms import TRANSFORMS

    for v in [p["x"], 0.5, 1.0, 2.0, 3.0]:
        if abs(v) > 50:
            continue
        got = float(TRANSFORMS[p["log"]](TRANSFORMS[p["exp"]](numpy.array([v])))[0])
        if not _close(got, v, 1e-9):
            return f"not-inverse: {p['log']}({p['exp']}({v})) = {got}"
    return None


# ------------------------------------------------------------------------------------------------ C12 (scipy as the native reference)


def _bs_ref_float(x, knots, degree, extend):
    from scipy.interpolate import BSpline

    t = numpy.array(knots, dtype=float)
    nb = len(t) - degree - 1
    out = []
    for i in range(nb):
        c = numpy.zeros(nb)
        c[i] = 1.0
        v = BSpline(t, c, degree, extrapolate=True)(x)
        out.append(float(v))
    if not extend and not (t[0] <= x <= t[-1]):
        return None
    return out


@replay("c12_bs")
def _(p):
    from formulaic.transforms import TRANSFORMS

    bs = TRANSFORMS["bs"]
    cfg = p["cfg"]
    x = float(p["x"])
    st = dict(cfg["state"]) if cfg.get("state") is not None else {}
    kw = dict(degree=cfg["degree"], include_intercept=cfg["include_intercept"], extrapolation=cfg["extrapolation"])
    if cfg.get("state") is None:
        kw.update(knots=cfg["knots"], lower_bound=cfg["lower_bound"], upper_bound=cfg["upper_bound"])
    for xv in (x,):
        try:
            out = bs(numpy.array([xv]), _state=st, **kw)
        except ValueError as e:
            lo, hi = st["lower_bound"], st["upper_bound"]
            if cfg["extrapolation"] == "raise" and not (lo <= xv <= hi):
                return None
            return f"raises-inside-bounds: bs raised {e} for x={xv}"
        lo, hi = st["lower_bound"], st["upper_bound"]
        inside = lo <= xv <= hi
        mode = cfg["extrapolation"]
        if mode == "raise" and not inside:
            return f"no-raise-outside-bounds: bs(extrapolation='raise') returned a value for x={xv} outside [{lo},{hi}]"
        knots, degree = st["knots"], cfg["degree"]
        if cfg.get("state") is None and cfg.get("knots") is not None:
            denoted = [float(cfg["lower_bound"])] * (degree + 1) + sorted(float(k) for k in cfg["knots"]) + [float(cfg["upper_bound"])] * (degree + 1)
            if [float(k) for k in knots] != denoted:
                return f"wrong-knot-vector: bs(knots={cfg['knots']}, degree={degree}, bounds [{cfg['lower_bound']},{cfg['upper_bound']}]) recorded the knot vector {[float(k) for k in knots]}, the arguments denote {denoted}"
        nb = len(knots) - degree - 1
        keys = [i for i in range(nb) if i > 0 or cfg["include_intercept"]]
        if list(out.keys()) != keys:
            return f"wrong-columns: bs columns {list(out.keys())} != {keys}"
        got = [float(out[i][0]) for i in keys]
        if inside or mode == "extend":
            want = _bs_ref_float(xv, knots, degree, True)
        elif mode == "clip":
            want = _bs_ref_float(min(max(xv, lo), hi), knots, degree, True)
        elif mode == "zero":
            want = [0.0] * nb
        elif mode == "na":
            return None if all(math.isnan(g) for g in got) else f"no-nan-outside-bounds: bs(extrapolation='na') gave {got} outside the bounds"
        want = [want[i] for i in keys]
        if any(math.isnan(g) for g in got) or not numpy.allclose(got, want, atol=1e-8):
            return f"basis-mismatch: bs({ {k: v for k, v in cfg.items() if k != 'state'} }) at x={xv} gives {got} but the B-spline basis on knots {knots} is {want}"
        if inside and (min(got) < -1e-12):
            return f"negative-value: {got}"
    return None


def _crs_ref_float(x, knots, cyclic):
    from scipy.interpolate import CubicSpline

    t = numpy.array(knots, dtype=float)
    n = len(t)
    nb = n - 1 if cyclic else n
    out = []
    for j in range(nb):
        y = numpy.zeros(n)
        y[j] = 1.0
        if cyclic and j == 0:
            y[-1] = 1.0
        cs = CubicSpline(t, y, bc_type="periodic" if cyclic else "natural")
        if cyclic:
            P = t[-1] - t[0]
            xe = t[0] + (x - t[0]) % P
            out.append(float(cs(xe)))
        elif x < t[0]:
            out.append(float(cs(t[0]) + cs(t[0], 1) * (x - t[0])))
        elif x > t[-1]:
            out.append(float(cs(t[-1]) + cs(t[-1], 1) * (x - t[-1])))
        else:
            out.append(float(cs(x)))
    return out


@replay("c12_crs")
def _(p):
    from formulaic.transforms import TRANSFORMS

    cfg = p["cfg"]
    f = TRANSFORMS["cc" if cfg["cyclic"] else "cr"]
    kn = cfg["knots"]
    lo, hi = kn[0], kn[-1]
    x = float(p["x"])
    mode = cfg["extrapolation"]
    inside = lo <= x <= hi
    try:
        out = f(numpy.array([x]), knots=kn[1:-1], lower_bound=lo, upper_bound=hi, extrapolation=mode, _state={})
    except ValueError as e:
        if mode == "raise" and not inside:
            return None
        return f"raises-inside-bounds: cubic spline raised {e}"
    if mode == "raise" and not inside:
        return "no-raise-outside-bounds: extrapolation='raise' returned outside the bounds"
    got = [float(out[k][0]) for k in out]
    if not inside and mode == "na":
        return None if all(math.isnan(g) for g in got) else f"no-nan-outside-bounds: 'na' gave {got}"
    if not inside and mode == "zero":
        return None if numpy.allclose(got, 0) else f"no-zero-outside-bounds: 'zero' gave {got}"
    xe = min(max(x, lo), hi) if mode == "clip" else x
    want = _crs_ref_float(xe, kn, cfg["cyclic"])
    if len(got) != len(want) or not numpy.allclose(got, want, atol=1e-7):
        return f"basis-mismatch: {'cc' if cfg['cyclic'] else 'cr'}(knots={kn}, {mode}) at x={x} gives {got}, interpolating-spline cardinal basis gives {want}"
    return None


@replay("c12_crs_identity")
def _(p):
    from formulaic.transforms import TRANSFORMS

    f = TRANSFORMS["cc" if p["cyclic"] else "cr"]
    kn = p["knots"]
    out = f(numpy.array(kn), knots=kn[1:-1], lower_bound=kn[0], upper_bound=kn[-1], _state={})
    m = numpy.stack([out[k] for k in out], axis=1)
    n = len(kn)
    want = numpy.eye(n) if not p["cyclic"] else numpy.vstack([numpy.eye(n - 1), numpy.eye(n - 1)[0:1]])
    return None if m.shape == want.shape and numpy.allclose(m, want, atol=1e-9) else f"not-identity-at-knots: {m.tolist()}"


@replay("c12_crs_center")
def _(p):
    from formulaic.transforms import TRANSFORMS

    f = TRANSFORMS["cc" if p["cyclic"] else "cr"]
    kw = {}
    if p.get("mode"):
        kw = dict(extrapolation=p["mode"], lower_bound=p["bounds"][0], upper_bound=p["bounds"][1])
    out = f(numpy.array(p["train"]), df=p["df"], constraints="center", _state={}, **kw)
    m = numpy.stack([out[k] for k in out], axis=1)
    if m.shape[1] != p["df"]:
        return f"wrong-column-count: {m.shape[1]} columns for df={p['df']}"
    return None if numpy.allclose(m.mean(axis=0), 0, atol=1e-9) else f"not-centered: column means {m.mean(axis=0)}"


@replay("c12_crs_center_replay")
def _(p):
    from formulaic.transforms import TRANSFORMS

    f = TRANSFORMS["cc" if p["cyclic"] else "cr"]
    st = {}
    f(numpy.array(p["train"]), df=p["df"], constraints="center", _state=st)
    kn = st["knots"]
    nb = len(kn) - 1 if p["cyclic"] else len(kn)
    atk = f(numpy.array(kn[:nb]), _state=st)
    Z = numpy.stack([atk[k] for k in atk], axis=1)
    x = float(p["x"])
    got = f(numpy.array([x]), _state=st)
    got = numpy.array([got[k][0] for k in got])
    want = numpy.array(_crs_ref_float(x, kn, p["cyclic"])) @ Z
    return None if numpy.allclose(got, want, atol=1e-7) else f"basis-mismatch: constrained basis at x={x} is {got} vs {want}"


@replay("c12_bs_df")
def _(p):
    from formulaic.transforms import TRANSFORMS

    out = TRANSFORMS["bs"](numpy.array(p["train"]), df=p["df"], degree=p["degree"], include_intercept=p["ii"], _state={})
    return None if len(out) == p["df"] else f"wrong-column-count: bs(df={p['df']}) gave {len(out)} columns"


@replay("c13_poly_float")
def _(p):
    from formulaic.transforms import poly

    x = numpy.array(p["x"], dtype=float)
    deg = p["degree"]
    st = {}
    P = numpy.asarray(poly(x, degree=deg, _state=st), dtype=float)
    if not numpy.all(numpy.isfinite(P)):
        return f"not-finite: poly(x, {deg}) on {p['x'][:3]}..."
    G = P.T @ P
    if not numpy.allclose(G, numpy.eye(deg), atol=1e-6):
        return f"not-orthonormal: poly(x, {deg}) on {p['x'][:3]}...: Gram matrix deviates by {float(numpy.abs(G - numpy.eye(deg)).max()):.3g}"
    if not numpy.allclose(P.sum(axis=0), 0, atol=1e-6):
        return f"not-orthogonal-to-constant: column sums {P.sum(axis=0).tolist()}"
    # spans the raw powers: the residual of regressing x**k on [1 | P] vanishes (relative)
    xs = (x - x.mean()) / (numpy.abs(x - x.mean()).max() or 1.0)
    M = numpy.column_stack([numpy.ones(len(x)), P])
    for k in range(1, deg + 1):
        r = xs ** k - M @ numpy.linalg.lstsq(M, xs ** k, rcond=None)[0]
        if numpy.abs(r).max() > 1e-6:
            return f"span: (x - mean)^{k} is not in the span of [1 | poly(x, {deg})] (residual {float(numpy.abs(r).max()):.3g})"
    again = numpy.asarray(poly(x[:2], degree=deg, _state=st), dtype=float)
    if not numpy.allclose(again, P[:2], rtol=1e-6, atol=1e-8):
        return f"wrong-replay: recorded state gives {again.tolist()} for the first two rows, fitted {P[:2].tolist()}"
    return None


@replay("c12_float")
def _(p):
    from formulaic.transforms import TRANSFORMS

    x = numpy.array(p["x"], dtype=float)
    t = p["transform"]
    kw = dict(df=5, include_intercept=True) if t == "bs" else dict(df=4)
    out = TRANSFORMS[t](x, _state={}, **kw)
    M = numpy.stack([numpy.asarray(out[k], dtype=float) for k in out], axis=1)
    if not numpy.all(numpy.isfinite(M)):
        return f"not-finite: {t} on {p['x'][:3]}..."
    if not numpy.allclose(M.sum(axis=1), 1.0, atol=1e-6):
        return f"rows-do-not-sum-to-one: {t}({kw}) on {p['x'][:3]}...: row sums {M.sum(axis=1).tolist()[:4]}"
    if t == "bs" and M.min() < -1e-9:
        return f"negative-basis: {float(M.min())}"
    # affine invariance: the basis of a*x + b on transformed knots is the same matrix
    out2 = TRANSFORMS[t]((x - x.min()) / (x.max() - x.min()), _state={}, **kw)
    M2 = numpy.stack([numpy.asarray(out2[k], dtype=float) for k in out2], axis=1)
    if M2.shape != M.shape or not numpy.allclose(M, M2, atol=1e-6):
        return f"not-affine-invariant: {t} on {p['x'][:3]}... differs from the basis of the data rescaled to [0, 1] by {float(numpy.abs(M - M2).max()):.3g}"
    return None


@replay("c13_quoted_pair")
def _(p):
    import pandas
    from formulaic import model_matrix

    u, v = numpy.array(p["u"], dtype=float), numpy.array(p["v"], dtype=float)
    if len(set(u)) < 3 or len(set(v)) < 3:
        return None
    mm = model_matrix("0 + scale(`x 1`) + scale(`x-1`) + center(`x-1`)", pandas.DataFrame({"x 1": u, "x-1": v}), output="numpy")
    m = numpy.asarray(mm, dtype=float)
    want = numpy.stack([(u - u.mean()) / u.std(ddof=1), (v - v.mean()) / v.std(ddof=1), v - v.mean()], axis=1)
    if m.shape != want.shape or not numpy.allclose(m, want, rtol=1e-9, atol=1e-9):
        return f"shared-state: scale(`x 1`) + scale(`x-1`) + center(`x-1`) gives {m.tolist()}, each column standardised on its own data is {want.tolist()}"
    if len(mm.model_spec.transform_state) != 3:
        return f"shared-state: {len(mm.model_spec.transform_state)} recorded states for three stateful calls: {list(mm.model_spec.transform_state)}"
    return None


@replay("c13_scale_float")
def _(p):
    from formulaic.transforms import center, poly, scale

    x = numpy.array(p["x"], dtype=p.get("dtype", "float64"))
    p = {**p, "x": [int(v) if x.dtype.kind in "iub" else float(v) for v in x]}  # the values the vector really holds
    n, ddof = len(x), p["ddof"]
    st = {}
    out = numpy.asarray(scale(x, ddof=ddof, _state=st), dtype=float)
    if not numpy.all(numpy.isfinite(out)):
        return f"not-finite: scale(x, ddof={ddof}) on {p['x'][:3]}... gives {out.tolist()[:4]}"
    # exact reference in rationals
    from fractions import Fraction

    fx = [Fraction(v) for v in p["x"]]
    mean = sum(fx) / n
    var = sum((v - mean) ** 2 for v in fx) / (n - ddof)
    want = [float(v - mean) / math.sqrt(float(var)) for v in fx]
    if not numpy.allclose(out, want, rtol=1e-6, atol=1e-9):
        return f"wrong-standardisation: scale(x, ddof={ddof}) on {p['x'][:3]}... gives {out.tolist()[:4]}, exact arithmetic gives {want[:4]}"
    c = numpy.asarray(center(x, _state={}), dtype=float)
    if not numpy.allclose(c, [float(v - mean) for v in fx], rtol=1e-9, atol=1e-9 * max(1.0, abs(float(mean)))):
        return f"wrong-centering: center(x) on {p['x'][:3]}... gives {c.tolist()[:4]}"
    again = numpy.asarray(scale(x[:2], ddof=ddof, _state=st), dtype=float)
    if not numpy.allclose(again, want[:2], rtol=1e-6, atol=1e-9):
        return f"wrong-replay: recorded statistics give {again.tolist()} for the first two rows, expected {want[:2]}"
    return None


@replay("c13_formula_state")
def _(p):
    import pandas
    from formulaic import model_matrix

    a, y = p["a"], p["y"]
    if len(set(a)) < 3:
        return None
    mm = model_matrix(f"0 + {p['call']}", pandas.DataFrame({"a": a}), output="numpy")
    spec = mm.model_spec
    if not spec.transform_state:
        return f"no-state-recorded: model_matrix('0 + {p['call']}') recorded no transform state"
    mixed = numpy.asarray(spec.get_model_matrix(pandas.DataFrame({"a": [a[1], y[0]]})), dtype=float)
    alone = numpy.asarray(spec.get_model_matrix(pandas.DataFrame({"a": [y[0]]})), dtype=float)
    ref = numpy.asarray(mm, dtype=float)
    if not numpy.allclose(mixed[0], ref[1], rtol=1e-9, atol=1e-9, equal_nan=True):
        return f"training-row-differs: {p['call']}: training row replays to {mixed[0].tolist()}, recorded {ref[1].tolist()}"
    if not numpy.allclose(mixed[1], alone[0], rtol=1e-9, atol=1e-9, equal_nan=True):
        return f"row-depends-on-companions: {p['call']}: fresh row gives {mixed[1].tolist()} next to a training row, {alone[0].tolist()} alone"
    return None


@replay("c12_null_rows")
def _(p):
    from formulaic.transforms import TRANSFORMS

    fn = TRANSFORMS[p["transform"]]
    base = [0.5, 1.0, 2.25, 3.0, 3.75, 4.0]
    withnan = base[:2] + [float("nan")] + base[2:]
    kw = dict(df=3, extrapolation=p["mode"], lower_bound=0.0, upper_bound=4.5) if p["transform"] != "bs" else dict(df=4, extrapolation=p["mode"], lower_bound=0.0, upper_bound=4.5)
    st_ref, st = {}, {}
    ref = fn(numpy.array(base), _state=st_ref, **kw)
    try:
        if p["replay_state"]:
            out = fn(numpy.array(withnan), _state=st_ref, **kw)
        else:
            out = fn(numpy.array(withnan), _state=st, **kw)
    except Exception as e:
        return f"raises: {p['transform']}(x with one null, extrapolation={p['mode']!r}) raised {type(e).__name__}: {str(e)[:100]} although every non-null value is inside the bounds"
    for k in ref:
        col = numpy.asarray(out[k], dtype=float)
        if not numpy.isnan(col[2]):
            return f"null-row-not-null: {p['transform']}(extrapolation={p['mode']!r}) column {k} holds {col[2]} in the row of the null x"
        if not numpy.allclose(numpy.delete(col, 2), numpy.asarray(ref[k], dtype=float), rtol=1e-9, atol=1e-12):
            return f"other-rows-changed: {p['transform']}(extrapolation={p['mode']!r}) column {k} differs from the null-free evaluation"
    return None


@replay("c12_crs_df")
def _(p):
    from formulaic.transforms import TRANSFORMS

    st = {}
    out = TRANSFORMS["cc" if p["cyclic"] else "cr"](numpy.array(p["train"]), df=p["df"], _state=st)
    kn = [float(k) for k in st.get("knots", [])]
    want = p["df"] + 1 if p["cyclic"] else p["df"]
    if len(out) != p["df"]:
        return f"wrong-column-count: {'cc' if p['cyclic'] else 'cr'}(df={p['df']}) gave {len(out)} columns"
    if len(kn) != want or kn != sorted(kn) or len(set(kn)) != len(kn) or kn[0] < min(p["train"]) or kn[-1] > max(p["train"]):
        return f"bad-knots: recorded knots {kn} (need {want} distinct sorted knots inside the data range)"
    return None


@replay("c12_bs_nulls")
def _(p):
    from formulaic.transforms import TRANSFORMS

    train = list(p["train"])
    tn = train[:3] + [float("nan")] + train[3:]
    st, st2 = {}, {}
    kw = dict(df=p["df"], degree=p["degree"], include_intercept=p["ii"])
    out = TRANSFORMS["bs"](numpy.array(train), _state=st, **kw)
    out2 = TRANSFORMS["bs"](numpy.array(tn), _state=st2, **kw)
    for k in st:
        a, b = st[k], st2.get(k)
        if isinstance(a, (list, numpy.ndarray)):
            if b is None or not numpy.allclose(numpy.asarray(a, dtype=float), numpy.asarray(b, dtype=float)):
                return f"state-differs: bs state {k!r} is {b} with one NaN in the training vector, {a} without"
        elif a != b:
            return f"state-differs: bs state {k!r} is {b} with one NaN in the training vector, {a} without"
    for k in out:
        col = numpy.asarray(out2[k], dtype=float)
        if not numpy.isnan(col[3]) or not numpy.allclose(numpy.delete(col, 3), numpy.asarray(out[k], dtype=float)):
            return f"rows-differ: bs column {k}: {col.tolist()} vs {numpy.asarray(out[k]).tolist()} (NaN inserted at row 3)"
    return None


# ------------------------------------------------------------------------------------------------ C16


def _c16_float_eval(t, env, lits):
    if t[0] == "v":
        return env[t[1]]
    if t[0] == "l":
        return lits[str(t[1])]
    if t[0] == "neg":
        return -_c16_float_eval(t[1], env, lits)
    a, b = _c16_float_eval(t[1], env, lits), _c16_float_eval(t[2], env, lits)
    return {"+": a + b, "-": a - b, "*": a * b, "/": a / b}[t[0]]


def _c16_subst(s, lits):
    import re

    def sub(m):
        v = lits.get(str(int(m.group(0)) - 100))
        if v is None:
            return m.group(0)
        v = float(v)
        return repr(v) if v >= 0 else f"(0 - {repr(-v)})"

    return re.sub(r"\b1[0-9][0-9]\b", sub, s)


@replay("c16_spec")
def _(p):
    from formulaic.errors import FormulaSyntaxError
    from formulaic.utils.constraints import LinearConstraints

    lits, x, names = p["lits"], p["x"], p["names"]
    spec = p["spec"]
    if p["form"] == "dict":
        spec = {_c16_subst(k, lits): float(lits[str(int(v) - 100)]) for k, v in spec.items()}
    elif isinstance(spec, list):
        spec = [_c16_subst(s, lits) for s in spec]
    else:
        spec = _c16_subst(spec, lits)
    try:
        lc = LinearConstraints.from_spec(spec, variable_names=names)
    except (RuntimeError, FormulaSyntaxError):
        return None
    except ZeroDivisionError:
        return None
    except Exception as e:
        return f"escaping-{type(e).__name__}: LinearConstraints.from_spec({spec!r}) raised {type(e).__name__}: {e}"
    A, b = numpy.asarray(lc.constraint_matrix, dtype=float), numpy.asarray(lc.constraint_values, dtype=float)
    parts = p["parts"]
    if A.shape != (len(parts), len(names)):
        return f"wrong-shape: {A.shape} for {len(parts)} constraints"
    xv = numpy.array([x[n] for n in names])
    for i, part in enumerate(parts):
        try:
            want = _c16_float_eval(part[1], x, lits)
            if part[0] == "eq":
                want -= _c16_float_eval(part[2], x, lits)
        except ZeroDivisionError:
            return None
        got = float(A[i] @ xv - b[i])
        if not _close(got, want, 1e-7):
            return f"wrong-affine-map: {spec!r} row {i}: A.x-b = {got} but lhs-rhs = {want} at x={x}"
    return None


# ------------------------------------------------------------------------------------------------ CLI

if __name__ == "__main__":
    # dispatch through the canonical module instance (harness.replays): the extra replay modules register there, not in __main__
    import harness.replays as _canon

    _canon._load_extras()
    rec = json.load(open(sys.argv[1]))
    bad = _canon.run(rec["payload"])
    if bad:
        print(f"VIOLATION property={rec['property']} replay={sys.argv[1]}")
        print(f"  {bad}")
        sys.exit(1)
    print("does not reproduce")
    sys.exit(0)


