"""C10 — model-spec metadata indexes the generated columns truthfully (SR pipeline; lookups decided on realised objects)."""

from __future__ import annotations

import itertools
import random

import numpy
import pandas
import z3

from formulaic import model_matrix
from lib.common import Check
from oracle.columns_ref import split_label
from sr import rig
from sr.pipeline import sym_ab, symbolic_pipeline
from sr.symreal import conj, lift, model_value, same_cell

from . import matrix_common as mc
from . import replays, replays_matrix

from .c10_meta import TERMS, _printed, frame, metadata_findings


def run(check: Check) -> None:
    thorough = check.tier == "thorough"
    check.info["explanation"] = (
        "SR pipeline: real specs obtained from model_matrix on symbolic numeric columns. Metadata facts (names, contiguous/"
        "disjoint/ordered/covering term ranges, lookups by object / printed form / column name, variable indices) are ground "
        "facts decided on the realised spec objects natively (CrossHair would mask hash/eq defects). Solver part: "
        "spec.subset(S).get_model_matrix(D) == the parent's columns for the chosen terms, cell by cell for ALL values."
    )
    check.info["rule"] = "configuration = (ordered term family from a 14-term menu incl. unsorted-factor / zero-column / multi-column terms, intercept, rank mode, output)"
    check.bounds.update({"terms_per_formula": "<=3", "rows": mc.NROWS, "subsets": "every non-empty subset of <=2 terms, both orders"})
    check.out_of_scope += ["bs()/cr() multi-column transforms on symbolic data (path explosion): run at a concrete point", "sparse output is read natively at one concrete point (ground companion)"]
    tmo = 60000 if thorough else 10000
    rng = random.Random(check.seed)
    df = frame()
    n = mc.NROWS
    menu = list(TERMS)
    fams = [[t] for t in menu]
    pairs = [list(p) for p in itertools.permutations(menu, 2) if TERMS[p[0]][0] != TERMS[p[1]][0]]
    rng.shuffle(pairs)
    fams += pairs if thorough else pairs[:40]
    for _ in range(600 if thorough else 30):
        tr = rng.sample(menu, 3)
        if len({frozenset(TERMS[t][0]) for t in tr}) == 3:
            fams.append(tr)
    fams = [["B:A", "a"], ["K", "a:A"], ["b:a:A", "poly(a, 2)", "K"], ["a:A", "A:B:a"]] + fams
    recorded = 0
    seen = set()
    for fam in fams:
        for intercept, efr in itertools.product((True, False), (True, False)):
            out = "pandas" if (thorough or rng.random() < 0.7) else "numpy"
            formula = ("" if intercept else "0 + ") + " + ".join(fam)
            ident = f"{formula} efr={efr} {out}"
            if ident in seen:
                continue
            seen.add(ident)
            subsets = [[t] for t in fam] + [list(p) for p in itertools.permutations(fam, 2)]

            def fn(formula=formula, efr=efr, out=out, subsets=subsets):
                a, b = sym_ab(n)
                ctx = {"a": a, "b": b}
                with symbolic_pipeline():
                    mm = model_matrix(formula, df, context=ctx, ensure_full_rank=efr, output=out)
                    subs = []
                    for S in subsets:
                        sub = mm.model_spec.subset(S)
                        subs.append((S, sub, sub.get_model_matrix(df, context=ctx)))
                return mm, subs

            def claims(res, fam=fam, out=out, formula=formula, efr=efr):
                mm, subs = res
                found = metadata_findings(mm, out, fam)
                yield "metadata (ground)", True
                for tag, msg in found:
                    p = {"kind": "c10_meta", "formula": formula, "efr": efr, "output": out, "terms": fam, "tag": tag}
                    bad = replays.run(p)
                    if bad:
                        check.violation(f"metadata::{tag}", msg, p)
                    else:
                        check.nonreproducing(f"metadata finding {tag}: {msg}")
                if any(tag == "metadata-inconsistent" for tag, _ in found):
                    return
                labels, cells = mc.matrix_cells(mm, out)
                tix = {repr(t): idx for t, idx in mm.model_spec.term_indices.items()}
                for S, sub, sm in subs:
                    for tag, msg in metadata_findings(sm, out, list(S)):
                        if "[factors not in sorted order]" in tag:
                            continue  # the recorded printed-form lookup findings apply to subset specs alike
                        p = {"kind": "c10_subset_meta", "formula": formula, "efr": efr, "output": out, "terms": fam, "subset": list(S), "tag": tag}
                        bad = replays.run(p)
                        if bad:
                            check.violation(f"subset-metadata::{tag}", f"subset({S}) of {formula!r}: {msg}", p)
                        else:
                            check.nonreproducing(f"subset metadata finding {tag}: {msg}")
                    want_cols = [j for s in S for j in tix[_printed(s)]]
                    sl, sc = mc.matrix_cells(sm, out)
                    yield f"subset {S}: exactly the parent's column names for those terms", sorted(sl) == sorted(labels[j] for j in want_cols) and len(set(sl)) == len(sl)
                    if sc.shape == (n, len(want_cols)) and want_cols and sorted(sl) == sorted(labels[j] for j in want_cols):
                        yield f"subset {S}: cells == parent's columns of the same name for all values", conj(
                            [same_cell(sc[i, k], cells[i, labels.index(name)]) for i in range(n) for k, name in enumerate(sl)])

            def rep(model, label, formula=formula, efr=efr, out=out, fam=fam):
                p = {"kind": "c10_subset", "formula": formula, "efr": efr, "output": out, "terms": fam,
                     "a": [model_value(model, z3.Real(f"a{i}")) for i in range(n)], "b": [model_value(model, z3.Real(f"b{i}")) for i in range(n)]}
                for cand in (p, dict(p, a=[float(i + 2) for i in range(n)], b=[float(3 * i + 1) % 7 + 0.5 for i in range(n)])):
                    bad = replays.run(cand)
                    if bad:
                        return ("subset", bad, cand)
                return None

            rig.run_sym(check, "metadata+subset", fn, claims, replay=rep, timeout_ms=tmo, case_id=ident,
                        sample={"formula": formula, "ensure_full_rank": efr, "output": out}, record=recorded < 25)
            recorded += 1
            # ground companion: the same metadata reading on sparse output (native; scipy cannot hold symbolic cells)
            p = {"kind": "c10_meta", "formula": formula, "efr": efr, "output": "sparse", "terms": fam, "tag": None}
            try:
                mms = model_matrix(formula, replays_matrix._c10_frame(), ensure_full_rank=efr, output="sparse")
                found = metadata_findings(mms, "sparse", fam)
            except Exception as e:
                found = [("metadata-inconsistent", f"sparse build raised {type(e).__name__}: {e}")]
            check.obligation("metadata.sparse/ground", "refuted" if any("[factors not in sorted order]" not in t for t, _ in found) else "ground")
            for tag, msg in found:
                check.violation(f"metadata::{tag}", f"(sparse output) {msg}", dict(p, tag=tag))
    # generated formulas (splines, polynomial bases, every contrast spelling, nested transforms) read natively at a concrete point (ground)
    from . import formula_gen

    gen = formula_gen.formulas(check.seed * 2 + 41, 400 if thorough else 40, "any")
    check.bounds["generated_formulas_native"] = len(gen)
    for formula in gen:
        for efr, out in itertools.product((True, False), ("pandas", "sparse")):
            p = {"kind": "c10_meta", "formula": formula, "efr": efr, "output": out, "terms": None, "tag": None}
            try:
                mmg = model_matrix(formula, replays_matrix._c10_frame(), ensure_full_rank=efr, output=out)
                found = metadata_findings(mmg, out, None)
            except Exception as e:
                found = [("metadata-inconsistent", f"build raised {type(e).__name__}: {e}")]
            check.obligation("metadata.generated/ground", "refuted" if any("[factors not in sorted order]" not in t for t, _ in found) else "ground")
            for tag, msg in found:
                check.violation(f"metadata::{tag}", f"({out} output) {formula!r}: {msg}", dict(p, tag=tag))
    # cluster_by="numerical_factors" reorders the COLUMNS: term ranges follow them, every lookup still selects its own term's columns
    for formula, out in itertools.product(("a + A + b + a:A", "A + a + B + b:B + a:A", "a + b + A + a:A + b:B + B", "0 + A + a + a:A:B + b", "a + b + a:A + b:A"), ("pandas", "numpy", "sparse")):
        p = {"kind": "c10_clustered", "formula": formula, "output": out}
        bad = replays.run(p)
        check.case(f"clustered:{formula}:{out}")
        check.obligation("metadata.clustered/ground", "refuted" if bad else "ground")
        if bad:
            check.violation(f"metadata::clustered::{bad.split(':', 1)[0]}", bad, p)
    # two generated columns with the SAME name (a data column called 'a:b' next to the interaction a:b): every output type keeps both
    for formula, out in itertools.product(("`a:b` + a:b", "0 + a:b + `a:b`:A", "a*b + `a:b`"), ("pandas", "numpy", "sparse")):
        p = {"kind": "c10_dupnames", "formula": formula, "output": out}
        bad = replays.run(p)
        check.case(f"duplicate-names:{formula}:{out}")
        check.obligation("metadata.duplicate_names/ground", "refuted" if bad else "ground")
        if bad:
            check.violation(f"metadata::duplicate-names::{bad.split(':', 1)[0]}", bad, p)
    # multi-column spline transforms at a concrete point (ground)
    for formula in ("bs(a, df=4) + B:A", "cr(a, df=3):A + b", "0 + A:bs(b, df=3)"):
        for efr in (True, False):
            p = {"kind": "c10_meta", "formula": formula, "efr": efr, "output": "pandas", "terms": None, "tag": None}
            bad = replays.run(p)
            check.obligation("metadata.splines/ground", "refuted" if bad else "ground")
            if bad:
                check.violation(f"metadata::{bad.split(':', 1)[0]}", bad, p)
