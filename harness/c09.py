"""C09 — reusing a spec on incompatible data fails loudly and never reshapes columns (Engine SR + CH unit for _enforce_structure)."""

from __future__ import annotations

import itertools
import warnings

import numpy
import pandas
import z3

from formulaic import model_matrix
from formulaic.errors import DataMismatchWarning, FactorEncodingError
from lib.common import Check
from sr import rig
from sr.pipeline import symbolic_pipeline
from sr.symreal import conj, lift, model_value, same_cell, sym_vector

from . import matrix_common as mc
from . import replays

FORMULAS = ["A", "A + a", "a:A", "A:B", "A + b:B", "poly(a, 2) + A", "0 + A + a:B", "a + b", "C(A, levels=['x', 'y', 'z']) + a", "C(B, contr.sum):a + A", "C(A, contr.treatment('y')):b"]
A_TRAIN = [0.5, 1.25, 2.0, 3.5, 4.75, 6.0, 7.5]
B_TRAIN = [1.0, 7.0, 2.5, 5.5, 0.25, 3.0, 6.5]


def run(check: Check) -> None:
    thorough = check.tier == "thorough"
    tmo = 60000 if thorough else 10000
    check.info["explanation"] = (
        "Engine SR on the real spec-reuse path: specs are recorded on a concrete frame; the follow-up data carries the offending column as a "
        "SYMBOLIC numeric vector (kind change categorical -> numerical) or as a categorical (numerical -> categorical): on EVERY path, for all "
        "values, the call must raise FactorEncodingError and never return a matrix. Unseen levels: names/shape unchanged, DataMismatchWarning "
        "emitted, all other cells unchanged for all values of the symbolic numeric columns. _enforce_structure itself is explored by CrossHair "
        "over name-equality patterns (harness/ch_c09.py)."
    )
    check.info["rule"] = "case = (formula, which column changes kind / gains a level, output)"
    check.bounds.update({"formulas": FORMULAS, "rows": mc.NROWS})
    check.out_of_scope += ["levels that lose all their rows are exercised in C04", "columns changing kind inside Python-expression factors other than the menu"]
    n = mc.NROWS
    dtrain = mc.full_frame(A_TRAIN, B_TRAIN)
    from . import ch_c20_run

    ch_c20_run.run_c09(check, thorough)
    # categorical factors whose LEVELS are numbers / booleans, arriving as plain numeric columns holding those very values
    # (ground: numpy.unique / set membership on the values is beyond the symbolic engine's reach)
    for formula, col, how in itertools.product(("G", "G:a", "a + G + G:a", "H + a", "b:H"), ("G", "H"), ("int", "float", "empty", "bool")):
        if col not in formula:
            continue
        p = {"kind": "c09_numeric_levels", "formula": formula, "col": col, "how": how}
        bad = replays.run(p)
        check.case(f"{formula}:{col}->{how}")
        check.obligation("kind_change.numeric_levels/ground", "refuted" if bad else "ground")
        if bad:
            check.violation(f"kind-change::numeric-levelled {col}->{how}::{bad.split(':', 1)[0]}", bad, p)
    # a recorded level that is ABSENT from the follow-up data (also one that is not the last in level order) keeps its all-zero
    # column, and the other columns keep their meaning - for every output type incl. sparse (ground)
    for formula, out, lost in itertools.product(("A", "0 + A", "a:A", "A + a:B", "C(A, contr.sum) + b"), ("pandas", "numpy", "sparse"), ("x", "y", "z")):
        p = {"kind": "c09_lost_level", "formula": formula, "output": out, "lost": lost}
        bad = replays.run(p)
        check.case(f"lost level {formula}:{out}:{lost}")
        check.obligation("lost_levels.outputs/ground", "refuted" if bad else "ground")
        if bad:
            check.violation(f"lost-level::{out}::{bad.split(':', 1)[0]}", bad, p)
    for formula in FORMULAS:
        for out in ("pandas", "numpy"):
            mm0 = model_matrix(formula, dtrain, output=out)
            spec = mm0.model_spec
            labels0 = list(spec.column_names)
            import re as _re

            uses = set(_re.findall(r"(?<![\w.'])(A|B|a|b)(?![\w'(])", formula))
            # --- categorical recorded, numeric arrives (symbolic)
            for var in sorted(uses & {"A", "B"}):
                if f"C({var}" in formula:
                    continue  # C(...) declares the factor categorical whatever arrives: its kind cannot differ from the recorded one
                def fn(var=var):
                    x = sym_vector("x", n)
                    d2 = dtrain.drop(columns=[var])
                    with symbolic_pipeline():
                        return spec.get_model_matrix(d2, context={var: x})

                def claims(mm):
                    yield "a matrix was returned although a categorical factor arrived as numbers", False

                def on_exc(e, pc):
                    if isinstance(e, FactorEncodingError):
                        return [("raises FactorEncodingError", True)]
                    return [(f"raises {type(e).__name__} instead of FactorEncodingError", False)]

                def rep(model, label, var=var, formula=formula, out=out):
                    p = {"kind": "c09_kind", "formula": formula, "output": out, "var": var, "to": "numeric",
                         "x": [model_value(model, z3.Real(f"x{i}")) if model is not None else float(i) for i in range(n)]}
                    bad = replays.run(p)
                    return (f"kind-change::{var}->numeric", bad, p) if bad else None

                rig.run_sym(check, "kind_change", fn, claims, on_exception=on_exc, replay=rep, timeout_ms=tmo,
                            case_id=f"{formula}:{out}:{var}->numeric", sample={"formula": formula, "follow_up": f"{var} arrives as a symbolic numeric vector"})
            # --- numeric recorded, categorical arrives (concrete: no numeric value involved)
            for var in sorted(uses & {"a", "b"}):
                if f"({var}" in formula:
                    continue  # the variable sits inside a transform call: the factor cannot even be evaluated (FactorEvaluationError), kinds are never compared
                p = {"kind": "c09_kind", "formula": formula, "output": out, "var": var, "to": "categorical"}
                bad = replays.run(p)
                check.case(f"{formula}:{out}:{var}->categorical")
                check.obligation("kind_change/ground", "refuted" if bad else "ground")
                if bad:
                    check.violation(f"kind-change::{var}->categorical::{bad.split(':', 1)[0]}", bad, p)
            # --- unseen levels: never add / remove / rename columns, warn, other cells unchanged
            for var, via_subset in itertools.product(sorted(uses & {"A", "B"}), (False, True)):
                lv = {"A": mc.A_ROWS, "B": mc.B_ROWS}[var]
                rows2 = list(lv)
                rows2[1] = "NEW"
                rows2[4] = "NEW"
                # the recorded spec itself, or the spec narrowed with .subset() to (all of) its own terms: a derived spec pins the levels too
                spec_used = spec.subset([t for t in spec.formula if repr(t) != "1"] or list(spec.formula)) if via_subset else spec
                if via_subset and list(spec_used.column_names) != [c for c in labels0 if c != "Intercept"] and list(spec_used.column_names) != labels0:
                    continue  # (dropping the intercept changed the rank structure of this formula: not the same columns to compare)
                labels_used = list(spec_used.column_names)

                def fn(var=var, rows2=rows2, spec=spec_used):
                    a, b = sym_vector("a", n), sym_vector("b", n)
                    d2 = mc.cat_frame()
                    d2[var] = pandas.Categorical(rows2)
                    d1 = mc.cat_frame()
                    with symbolic_pipeline(), warnings.catch_warnings(record=True) as w:
                        warnings.simplefilter("always")
                        ref = spec.get_model_matrix(d1, context={"a": a, "b": b})
                        nw0 = len([x for x in w if issubclass(x.category, DataMismatchWarning)])
                        got = spec.get_model_matrix(d2, context={"a": a, "b": b})
                        nw1 = len([x for x in w if issubclass(x.category, DataMismatchWarning)])
                        spec.get_model_matrix(d2, context={"a": a, "b": b})  # a second batch with the same unseen level is announced again
                        nw2 = len([x for x in w if issubclass(x.category, DataMismatchWarning)])
                    return ref, got, nw0, (nw1, nw2)

                def claims(res, var=var, out=out, labels0=labels_used):
                    ref, got, nw0, nw1 = res
                    lr, cr = mc.matrix_cells(ref, out)
                    lg, cg = mc.matrix_cells(got, out)
                    yield "unseen level: same column names in the same order", lg == labels0 and lr == labels0
                    yield "unseen level: same shape", cg.shape == cr.shape
                    nw1, nw2 = nw1
                    yield "unseen level: DataMismatchWarning announced (and not for clean data)", nw0 == 0 and nw1 > nw0
                    yield "unseen level: announced again when the same spec meets it a second time", nw2 > nw1
                    if cg.shape == cr.shape:
                        keep = [i for i in range(n) if i not in (1, 4)]
                        yield "unseen level: rows without the new level are unchanged for all values", conj([same_cell(cg[i, j], cr[i, j]) for i in keep for j in range(len(lg))])
                        touched = [j for j, l in enumerate(lg) if f"{var}[" in l]
                        yield "unseen level: its rows carry zeros in that factor's columns", conj([same_cell(cg[i, j], 0) for i in (1, 4) for j in touched])

                def rep(model, label, var=var, formula=formula, out=out, via_subset=via_subset):
                    p = {"kind": "c09_unseen", "formula": formula, "output": out, "var": var, "via_subset": via_subset}
                    bad = replays.run(p)
                    return (f"unseen-level::{var}", bad, p) if bad else None

                rig.run_sym(check, "unseen_levels", fn, claims, replay=rep, timeout_ms=tmo,
                            on_exception=lambda e, pc: [(f"unseen level raised {type(e).__name__} instead of warning", False)], case_id=f"{formula}:{out}:{var} gains a level{' (subset spec)' if via_subset else ''}",
                            sample={"formula": formula, "follow_up": f"{var} gains level 'NEW' in rows 1 and 4; a, b symbolic"})
            # --- the follow-up frame DECLARES other categories than were recorded (another order; extra levels that no row holds;
            #     extra levels some rows hold): the recorded levels, in recorded order, decide the columns - nothing is renamed,
            #     added or re-referenced, and only observed unseen levels are announced
            for var in sorted(uses & {"A", "B"}):
                base_levels = {"A": mc.A_LEVELS, "B": mc.B_LEVELS}[var]
                rows = {"A": mc.A_ROWS, "B": mc.B_ROWS}[var]
                for how, cats in (("reversed", list(reversed(base_levels))), ("extra-declared", ["_a"] + list(base_levels) + ["zz"]),
                                  ("reversed+extra", ["zz"] + list(reversed(base_levels)) + ["_a"])):
                    def fn(var=var, cats=cats):
                        a, b = sym_vector("a", n), sym_vector("b", n)
                        d1, d2 = mc.cat_frame(), mc.cat_frame()
                        d2[var] = pandas.Categorical(rows, categories=cats, ordered=(len(cats) % 2 == 0))
                        with symbolic_pipeline(), warnings.catch_warnings(record=True) as w:
                            warnings.simplefilter("always")
                            ref = spec.get_model_matrix(d1, context={"a": a, "b": b})
                            got = spec.get_model_matrix(d2, context={"a": a, "b": b})
                            again = spec.get_model_matrix(d1, context={"a": a, "b": b})
                            nw = len([x for x in w if issubclass(x.category, DataMismatchWarning)])
                        return ref, got, again, nw

                    def claims(res, out=out):
                        ref, got, again, nw = res
                        lr, cr = mc.matrix_cells(ref, out)
                        for tag, m in (("redeclared", got), ("recorded spec afterwards", again)):
                            lg, cg = mc.matrix_cells(m, out)
                            yield f"{tag}: same column names in the same order", lg == labels0 and lr == labels0
                            yield f"{tag}: same shape", cg.shape == cr.shape
                            if cg.shape == cr.shape:
                                yield f"{tag}: same cells for all values", conj([same_cell(cg[i, j], cr[i, j]) for i in range(n) for j in range(len(lg))])
                        yield "no DataMismatchWarning: every observed level was recorded", nw == 0

                    def rep(model, label, var=var, formula=formula, out=out, cats=cats):
                        p = {"kind": "c09_redeclared", "formula": formula, "output": out, "var": var, "cats": cats}
                        bad = replays.run(p)
                        return (f"redeclared-categories::{var}", bad, p) if bad else None

                    rig.run_sym(check, "redeclared_categories", fn, claims, replay=rep, timeout_ms=tmo,
                                on_exception=lambda e, pc: [(f"redeclared categories raised {type(e).__name__}", False)], case_id=f"{formula}:{out}:{var} dtype {how}",
                                sample={"formula": formula, "follow_up": f"{var} arrives with declared categories {cats}; same rows; a, b symbolic"})
