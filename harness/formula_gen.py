"""Seeded generator of formulas over the shared frame (numeric a, b; categorical A with levels x,y,z; B with levels u,v).

Used by the harnesses that compare builds with each other (C04, C05, C18): no label oracle is needed there, so the menu can
be much richer than C02's.  Flavour "nobranch": no data-dependent branching (the training run can be symbolic);
flavour "any": also splines with data-derived knots (trained concretely, followed up symbolically)."""
from __future__ import annotations

import random

NUMERIC = ["a", "b", "I(a*2)", "{a+b}", "center(a)", "scale(b)", "scale(a, ddof=0)", "poly(a, 2)", "np.exp(center(a) / 4)", "scale(center(b))",
           "{center(a) * center(a)}", "center(b)", "poly(b, 3, raw=True)", "{a * b}", "standardize(a)", "standardize(b, rescale=False)"]
SPLINES = ["bs(a, df=4)", "cr(b, df=3)", "cc(a, df=3)", "bs(b, df=5, degree=2, include_intercept=True)", "bs(scale(a), df=4)", "cr(a, df=4, constraints='center')", "cs(b, df=3)"]
CATEGORICAL = ["A", "B", "C(A)", "C(A, contr.sum)", "C(B, contr.treatment('v'))", "C(A, levels=['z', 'x', 'y'])", "C(A, contr.helmert)", "C(B, contr.SAS)", "C(A, contr.diff)",
               "C(A, Sum)", "C(A, Treatment('y'))", "C(B, Helmert)", "C(A, Poly)"]
LITERALS = ["2.5", "3"]


def _var_of(f):
    for v in ("A", "B"):
        if f == v or f.startswith(f"C({v}"):
            return v
    return f


def formulas(seed: int, n: int, flavour: str = "nobranch", max_terms: int = 4):
    rng = random.Random(seed)
    numeric = NUMERIC + (SPLINES if flavour == "any" else [])
    out, seen = [], set()
    guard = 0
    while len(out) < n and guard < 50 * n:
        guard += 1
        nterms = rng.randint(1, max_terms)
        terms, keys = [], set()
        for _ in range(nterms):
            k = rng.choice([1, 1, 2, 2, 3])
            pool = numeric + CATEGORICAL + CATEGORICAL
            fs = []
            for f in rng.sample(pool, k):
                if _var_of(f) in {_var_of(g) for g in fs}:
                    continue
                fs.append(f)
            if sum(1 for f in fs if f.startswith(("bs(", "cr(", "cc(", "cs("))) > 1:
                continue
            key = frozenset(fs)
            if not fs or key in keys:
                continue
            keys.add(key)
            if rng.random() < 0.15 and len(fs) <= 2:
                fs = ([rng.choice(LITERALS)] + fs) if rng.random() < 0.5 else (fs + [rng.choice(LITERALS)])
            terms.append(":".join(fs))
        if not terms:
            continue
        if sum(t.count(k) for t in terms for k in ("bs(", "cr(", "cc(", "cs(")) > 1:
            continue  # two spline bases on symbolic rows fork into more paths than one exploration's budget (400): one per formula
        f = " + ".join(terms)
        if rng.random() < 0.3:
            f = "0 + " + f
        if f not in seen:
            seen.add(f)
            out.append(f)
    return out
