"""C04 — a model spec replays the recorded encoding row by row on any data (Engine SR)."""

from __future__ import annotations

import itertools
import pickle
import random

import numpy
import pandas
import z3

from formulaic import model_matrix
from formulaic.transforms import TRANSFORMS
from lib.common import Check
from sr import rig
from sr.pipeline import symbolic_pipeline
from sr.symreal import SReal, as_sym_array, conj, lift, model_value, same_cell, sym_vector

from . import matrix_common as mc
from . import replays

# formulas whose training run is symbolic too (no data-dependent branching)
F_SYM = [
    "scale(a)", "center(a) + A", "standardize(b):A", "poly(a, 2) + B", "a:A + scale(b)", "{a+b} + C(A, contr.sum)",
    "I(a*2):B + center(b)", "scale(a, ddof=0) + scale(b, center=False)", "0 + A:center(a)", "poly(b, 3, raw=True):A",
    "C(A, contr.helmert):a + b", "center(a):center(b)",
    # stateful transforms nested inside other calls / expressions (their state is keyed by the call text, not by a factor)
    "poly(center(a), 2)", "{center(a) * 2}:A + b", "scale(center(b)) + a",
    # the same stateful call twice in one expression / in two factors
    "{center(a) * center(a)} + b", "center(a) + center(a):A", "{scale(b) + scale(b, ddof=0)}",
]
# formulas trained on concrete data (data-dependent knots), followed up with symbolic rows
F_CONC = F_SYM + [
    "bs(a, df=4)", "bs(a, df=5, degree=2, include_intercept=True) + A", "cr(a, df=3)", "cc(a, df=3):A",
    "bs(b, knots=[2, 4], lower_bound=0, upper_bound=8, extrapolation='clip') + a", "cr(b, df=4, constraints='center')",
    "A:bs(a, df=3, degree=1)", "bs(scale(a), df=4)", "np.exp(center(a) / 4) + A", "cr(center(b), df=3):A",
    # a stateful transform applied to the multi-column (dict-valued) output of another one: one state per sub-column
    "scale(bs(a, df=4)) + A", "center(cr(b, df=3))", "scale(poly(a, 2)):A",
    # bounds narrower than the training data, every non-raising extrapolation mode: out-of-bounds rows exist at fit time AND on replay
    # ('na' is left out here: it turns training rows into null rows that are dropped, which the row maps of this check do not model)
    "cr(a, df=4, lower_bound=1, upper_bound=6.5, extrapolation='clip')", "cc(b, df=3, lower_bound=1, upper_bound=6, extrapolation='clip') + A",
    "cr(b, df=3, lower_bound=0.5, upper_bound=6, extrapolation='zero'):A", "bs(a, df=4, lower_bound=1, upper_bound=7, extrapolation='clip')",
    "bs(b, df=3, degree=2, lower_bound=0.5, upper_bound=6.75, extrapolation='zero')", "cr(a, df=3, extrapolation='clip') + cc(b, df=3, extrapolation='clip')",
]

A_TRAIN = [0.5, 1.25, 2.0, 3.5, 4.75, 6.0, 7.5]
B_TRAIN = [1.0, 7.0, 2.5, 5.5, 0.25, 3.0, 6.5]


def follow_frame(a_rows, b_rows, cat_mode="full"):
    """cat_mode: how the follow-up frame declares its categorical dtype (the recorded levels must win in every case)."""
    if cat_mode == "full":
        return pandas.DataFrame({"A": pandas.Categorical(a_rows, categories=mc.A_LEVELS), "B": pandas.Categorical(b_rows, categories=mc.B_LEVELS)})
    if cat_mode == "inferred":  # only the observed levels are declared
        return pandas.DataFrame({"A": pandas.Categorical(a_rows), "B": pandas.Categorical(b_rows)})
    if cat_mode == "reversed":  # all levels, declared in another order
        return pandas.DataFrame({"A": pandas.Categorical(a_rows, categories=mc.A_LEVELS[::-1]), "B": pandas.Categorical(b_rows, categories=mc.B_LEVELS[::-1])})
    if cat_mode == "object":
        return pandas.DataFrame({"A": pandas.Series(list(a_rows), dtype=object), "B": pandas.Series(list(b_rows), dtype=object)})
    raise ValueError(cat_mode)


def run(check: Check) -> None:
    thorough = check.tier == "thorough"
    tmo = 60000 if thorough else 10000
    rng = random.Random(check.seed)
    check.info["explanation"] = (
        "Engine SR, two layers. (1) Per transform, from an ARBITRARY recorded state (symbolic means/scales/alpha/norms2; "
        "concrete knot menus) the real function is applied to symbolic rows: state unchanged, each output row a function of "
        "its own input row only (C13/C12 harnesses are re-run here as the inductive step). (2) Pipeline: spec = "
        "model_matrix(f, D).model_spec; for all numeric values, spec.get_model_matrix on D, on every row map of <=3 training rows "
        "(subset / duplicate / reorder), on fresh symbolic rows mixed with training rows, on frames that lost levels, and through "
        "a pickle round trip, yields the same names and, row by row, the recorded encoding."
    )
    check.info["rule"] = "case = (formula, training mode, follow-up layout); all paths of each case"
    check.bounds.update({"training_rows": mc.NROWS, "follow_up_rows": "<=3", "formulas_symbolic_training": len(F_SYM), "formulas_concrete_training": len(F_CONC)})
    check.out_of_scope += ["lag (defined across rows; excluded by the property)", "hashed(), sparse output and the narwhals materializer are replayed natively at one concrete point (ground leg)", "NaN-valued states",
                           "spline formulas with symbolic TRAINING data (data-dependent knots: path explosion); they are trained concretely and followed up symbolically"]
    n = mc.NROWS
    df = mc.cat_frame()

    # ------------------------------------------------------------------ layer 2a: symbolic training
    maps = [[k] for k in range(n)] + [[0, 0], [3, 1], [6, 2, 2], [1, 5, 0], [4, 4, 4]]
    if thorough:
        maps += [list(p) for p in itertools.permutations(range(n), 2)]
    from . import formula_gen

    gen_sym = formula_gen.formulas(check.seed * 2 + 11, 150 if thorough else 12, "nobranch")
    gen_conc = formula_gen.formulas(check.seed * 2 + 12, 120 if thorough else 10, "any")
    check.bounds["generated_formulas"] = {"symbolic_training": len(gen_sym), "concrete_training": len(gen_conc), "generator": "harness/formula_gen.py (seeded by VERIF_SEED)"}
    cases = []
    for formula in F_SYM + gen_sym:
        for out in ("pandas", "numpy"):
            these = maps if thorough else rng.sample(maps, 5)
            cases.append(("S", formula, out, these))
    for formula in F_CONC + [f for f in gen_conc if f not in F_CONC]:
        cases.append(("C", formula))
    for i in range(4):
        cases.append(("L1", i))
    from lib.parallel import run_cases

    run_cases(check, cases, _case)
    # native leg (ground): what a symbolic cell cannot enter - hashed() (hashes the VALUES), sparse output, the narwhals materializer -
    # replayed on row maps and through a pickle round trip at one concrete point
    native_formulas = ["hashed(A, levels=5)", "hashed(A, levels=3):a + b", "hashed(B, levels=4) + C(A):center(a)", "0 + hashed(A, levels=7):hashed(B, levels=2)",
                       "B*a", "B + a + B:a", "C(B):b + a + np.log(a + 1):B", "A:a + B:b:a", "scale(bs(a, df=4)) + A", "center(cr(b, df=3)):B"] + gen_conc[: (40 if thorough else 6)]
    for formula in native_formulas:
        for out, mat in (("pandas", None), ("sparse", None), ("numpy", "narwhals")):
            if mat and "hashed" in formula:
                continue
            p = {"kind": "c04_native_replay", "formula": formula, "output": out, "materializer": mat}
            bad = replays.run(p)
            check.case(f"native-replay:{formula}:{out}:{mat}")
            check.obligation("pipeline.native_replay/ground", "refuted" if bad else "ground")
            if bad:
                check.violation(f"spec-replay::native({out},{mat or 'pandas'})::{bad.split(':', 1)[0]}", bad, p)


def _case(check: Check, case, record=False):
    thorough = check.tier == "thorough"
    tmo = 60000 if thorough else 10000
    n = mc.NROWS
    df = mc.cat_frame()
    if case[0] == "L1":
        return _layer1_splines(check, tmo, case[1], record)
    if case[0] == "C":
        return _concrete(check, case[1], tmo, thorough, record)
    _, formula, out, these = case
    if True:
        if True:

            def fn(formula=formula, out=out, these=these):
                a, b = sym_vector("a", n), sym_vector("b", n)
                with symbolic_pipeline():
                    mm = model_matrix(formula, df, context={"a": a, "b": b}, output=out)
                    spec = mm.model_spec
                    state_before = repr((spec.transform_state, {k: v[0] for k, v in spec.encoder_state.items()}))
                    again = spec.get_model_matrix(df, context={"a": a, "b": b})
                    follow = []
                    for pi in these:
                        d2 = follow_frame([mc.A_ROWS[k] for k in pi], [mc.B_ROWS[k] for k in pi])
                        ctx = {"a": as_sym_array([a[k] for k in pi]), "b": as_sym_array([b[k] for k in pi])}
                        follow.append((pi, spec.get_model_matrix(d2, context=ctx)))
                    # fresh rows mixed with a training row: the state must be the recorded one, not re-fitted
                    y = sym_vector("y", 2)
                    d3 = follow_frame(["z", mc.A_ROWS[2]], ["u", mc.B_ROWS[2]])
                    mixed = spec.get_model_matrix(d3, context={"a": as_sym_array([y[0], a[2]]), "b": as_sym_array([y[1], b[2]])})
                    alone = spec.get_model_matrix(follow_frame(["z"], ["u"]), context={"a": as_sym_array([y[0]]), "b": as_sym_array([y[1]])})
                    state_after = repr((spec.transform_state, {k: v[0] for k, v in spec.encoder_state.items()}))
                return mm, again, follow, mixed, alone, state_before == state_after

            def claims(res, out=out):
                mm, again, follow, mixed, alone, state_same = res
                labels, cells = mc.matrix_cells(mm, out)
                l2, c2 = mc.matrix_cells(again, out)
                yield "original data: same names", l2 == labels
                yield "original data: same cells for all values", conj([same_cell(c2[i, j], cells[i, j]) for i in range(n) for j in range(len(labels))])
                for pi, m in follow:
                    lf, cf = mc.matrix_cells(m, out)
                    yield f"rows {pi}: same names in the same order", lf == labels
                    if cf.shape == (len(pi), len(labels)):
                        yield f"rows {pi}: corresponding rows for all values", conj([same_cell(cf[r, j], cells[k, j]) for r, k in enumerate(pi) for j in range(len(labels))])
                    else:
                        yield f"rows {pi}: shape", False
                lm, cm = mc.matrix_cells(mixed, out)
                la, ca = mc.matrix_cells(alone, out)
                yield "fresh rows: names", lm == labels and la == labels
                yield "training row inside new data is encoded as at training time", conj([same_cell(cm[1, j], cells[2, j]) for j in range(len(labels))])
                yield "fresh row does not depend on the other rows", conj([same_cell(cm[0, j], ca[0, j]) for j in range(len(labels))])
                yield "spec state unchanged by follow-up calls", state_same

            def rep(model, label, formula=formula, out=out):
                p = {"kind": "c04_replay", "formula": formula, "output": out,
                     "a": [model_value(model, z3.Real(f"a{i}")) for i in range(n)], "b": [model_value(model, z3.Real(f"b{i}")) for i in range(n)],
                     "y": [model_value(model, z3.Real(f"y{i}")) for i in range(2)]}
                for cand in (p, dict(p, a=A_TRAIN, b=B_TRAIN, y=[2.75, 4.5])):
                    bad = replays.run(cand)
                    if bad:
                        return ("spec-replay", bad, cand)
                return None

            rig.run_sym(check, "pipeline.symbolic_training", fn, claims, replay=rep, timeout_ms=tmo, case_id=f"S:{formula}:{out}", record=record,
                        sample={"formula": formula, "training": "symbolic a,b in R^7", "follow_ups": [str(p) for p in these[:3]] + ["fresh rows"]})



def _concrete(check: Check, formula, tmo, thorough, record):
    """layer 2b: concrete training, symbolic follow-up"""
    dtrain = mc.full_frame(A_TRAIN, B_TRAIN)
    if True:
        mm0 = model_matrix(formula, dtrain)
        spec0 = mm0.model_spec
        labels0 = list(spec0.column_names)
        ref = numpy.asarray(mm0, dtype=float)
        # ground: original data and row maps of concrete training rows
        p0 = {"kind": "c04_replay", "formula": formula, "output": "pandas", "a": A_TRAIN, "b": B_TRAIN, "y": [2.75, 4.5]}
        bad = replays.run(p0)
        check.obligation("pipeline.concrete_rowmaps/ground", "refuted" if bad else "ground")
        if bad:
            check.violation(f"spec-replay::{bad.split(':', 1)[0]}", bad, p0)
            return
        cats = [("x", "u"), ("z", "v")] if not thorough else [("x", "u"), ("y", "v"), ("z", "u"), ("z", "v")]
        for (A0, B0), (A1, B1) in (itertools.product(cats, cats[:2]) if thorough else [(cats[0], cats[1]), (cats[1], cats[1])]):
            blob = pickle.dumps(spec0)

            def fn(A0=A0, B0=B0, A1=A1, B1=B1, blob=blob):
                y = sym_vector("y", 4)  # (a0, b0, a1, b1)
                ctx2 = {"a": as_sym_array([y[0], y[2]]), "b": as_sym_array([y[1], y[3]])}
                with symbolic_pipeline():
                    two = spec0.get_model_matrix(follow_frame([A0, A1], [B0, B1]), context=ctx2)
                    two_inferred = spec0.get_model_matrix(follow_frame([A0, A1], [B0, B1], "inferred"), context=ctx2)
                    two_reversed = spec0.get_model_matrix(follow_frame([A0, A1], [B0, B1], "reversed"), context=ctx2)
                    swapped = spec0.get_model_matrix(follow_frame([A1, A0], [B1, B0]), context={"a": as_sym_array([y[2], y[0]]), "b": as_sym_array([y[3], y[1]])})
                    one = spec0.get_model_matrix(follow_frame([A0], [B0]), context={"a": as_sym_array([y[0]]), "b": as_sym_array([y[1]])})
                    dup = spec0.get_model_matrix(follow_frame([A0, A0], [B0, B0]), context={"a": as_sym_array([y[0], y[0]]), "b": as_sym_array([y[1], y[1]])})
                    restored = pickle.loads(blob)
                    two_p = restored.get_model_matrix(follow_frame([A0, A1], [B0, B1]), context=ctx2)
                return two, swapped, one, dup, two_p, two_inferred, two_reversed

            def pre():
                ys = [z3.Real(f"y{i}") for i in range(4)]
                return [z3.And(v >= -2, v <= 12) for v in ys]

            def claims(res):
                two, swapped, one, dup, two_p, two_inferred, two_reversed = res
                for nm, alt in (("inferred", two_inferred), ("reversed", two_reversed)):
                    la, ca = mc.matrix_cells(alt, "pandas")
                    l2_, c2_ = mc.matrix_cells(two, "pandas")
                    yield f"follow-up frame declaring {nm} categories: same names", la == l2_
                    if ca.shape == c2_.shape:
                        yield f"follow-up frame declaring {nm} categories: same cells (the recorded levels decide)", conj([same_cell(ca[i, j], c2_[i, j]) for i in range(ca.shape[0]) for j in range(ca.shape[1])])
                ms = [mc.matrix_cells(m, "pandas") for m in (two, swapped, one, dup, two_p)]
                yield "names identical and ordered in every follow-up", all(l == labels0 for l, _ in ms)
                k = len(labels0)
                (_, c2), (_, cs), (_, c1), (_, cd), (_, cp) = ms
                yield "reordering rows reorders the output", conj([same_cell(c2[0, j], cs[1, j]) for j in range(k)] + [same_cell(c2[1, j], cs[0, j]) for j in range(k)])
                yield "a row alone equals the row in company", conj([same_cell(c2[0, j], c1[0, j]) for j in range(k)])
                yield "duplicated rows yield duplicated output rows", conj([same_cell(cd[0, j], c1[0, j]) for j in range(k)] + [same_cell(cd[1, j], c1[0, j]) for j in range(k)])
                yield "pickled and restored spec behaves identically", conj([same_cell(cp[i, j], c2[i, j]) for i in range(2) for j in range(k)])

            def ok_exc(e):
                # extrapolation='raise' transforms legitimately refuse out-of-range follow-up values
                return isinstance(e, Exception) and "extend beyond" in str(e)

            def rep(model, label, formula=formula, A0=A0, B0=B0, A1=A1, B1=B1):
                p = {"kind": "c04_follow", "formula": formula, "cats": [[A0, B0], [A1, B1]], "y": [model_value(model, z3.Real(f"y{i}")) for i in range(4)]}
                bad = replays.run(p)
                return ("spec-follow-up", bad, p) if bad else None

            rig.run_sym(check, "pipeline.concrete_training", fn, claims, pre=pre(), replay=rep, timeout_ms=tmo,
                        on_exception=lambda e, pc: ([] if ok_exc(e) else [(f"follow-up raised {type(e).__name__}: {str(e)[:80]}", False)]),
                        case_id=f"C:{formula}:{A0}{B0}{A1}{B1}", max_paths=400, record=record,
                        sample={"formula": formula, "training": "concrete 7 rows", "follow_up": f"2 symbolic rows with categories {(A0, B0)}, {(A1, B1)}"})

        # levels absent from the follow-up frame still produce their all-zero columns (symbolic numeric values),
        # however the follow-up frame declares its categorical dtype
        for cat_mode in ("full", "inferred", "reversed", "object"):
            def fn_abs(cat_mode=cat_mode):
                y = sym_vector("y", 4)
                with symbolic_pipeline():
                    return spec0.get_model_matrix(follow_frame(["x", "x"], ["u", "u"], cat_mode), context={"a": as_sym_array([y[0], y[2]]), "b": as_sym_array([y[1], y[3]])})

            def claims_abs(m, cat_mode=cat_mode):
                l, c = mc.matrix_cells(m, "pandas")
                yield "lost levels: same names in the same order", l == labels0
                zeros = []
                for j, lab in enumerate(l):
                    if any(tok in lab for tok in ("[T.y]", "[T.z]", "[y]", "[z]", "[T.v]", "[v]")) and "contr." not in lab:
                        zeros += [same_cell(c[i, j], 0) for i in range(2)]
                yield "lost levels: their columns are all zero", conj(zeros)

            rig.run_sym(check, "pipeline.lost_levels", fn_abs, claims_abs, pre=[z3.And(z3.Real(f"y{i}") >= 0, z3.Real(f"y{i}") <= 8) for i in range(4)],
                        expect_exception=lambda e: "extend beyond" in str(e), timeout_ms=tmo, case_id=f"L:{formula}:{cat_mode}", max_paths=400, record=False,
                        replay=lambda model, label, formula=formula: (lambda p: (("spec-lost-levels", replays.run(p), p) if replays.run(p) else None))(
                            {"kind": "c04_follow", "formula": formula, "cats": [["x", "u"], ["x", "u"]], "y": [model_value(model, z3.Real(f"y{i}")) if model is not None else 1.5 + i for i in range(4)], "lost": True, "cat_mode": cat_mode}),
                        on_exception=lambda e, pc: ([] if "extend beyond" in str(e) else [(f"follow-up frame with cat_mode raised {type(e).__name__}", False)]))



def _layer1_splines(check: Check, tmo: int, which: int, record: bool):
    """bs / cr / cc from recorded (concrete-menu) states: two symbolic rows; row independence and state unchanged."""
    bs, cr, cc = TRANSFORMS["bs"], TRANSFORMS["cr"], TRANSFORMS["cc"]
    states = []
    st: dict = {}
    bs(numpy.array([0.0, 1.0, 1.0, 2.0, 5.0, 7.0, 7.0, 9.0]), df=5, degree=3, _state=st)
    states.append(("bs", bs, dict(degree=3, extrapolation="extend"), st))
    st = {}
    bs(numpy.array([0.0, 4.0]), knots=[2.0, 2.0], degree=2, include_intercept=True, _state=st)
    states.append(("bs", bs, dict(degree=2, include_intercept=True, extrapolation="clip"), st))
    st = {}
    cr(numpy.array([0.0, 0.3, 1.0, 2.2, 3.5, 4.0, 5.5, 6.0]), df=4, _state=st)
    states.append(("cr", cr, {}, st))
    st = {}
    cc(numpy.array([0.0, 0.3, 1.0, 2.2, 3.5, 4.0, 5.5, 6.0]), df=3, _state=st)
    states.append(("cc", cc, {}, st))
    for name, f, kw, st in states[which : which + 1]:
        frozen = repr(st)

        def fn(f=f, kw=kw, st=st):
            y = sym_vector("y", 2)
            s = {k: (v.copy() if hasattr(v, "copy") else v) for k, v in st.items()}
            both = f(y, _state=s, **kw)
            s1 = {k: (v.copy() if hasattr(v, "copy") else v) for k, v in st.items()}
            single = f(as_sym_array([y[1]]), _state=s1, **kw)
            return both, single, repr(s), repr(s1)

        def claims(res, frozen=frozen):
            both, single, r, r1 = res
            yield "state unchanged", r == frozen and r1 == frozen
            yield "same columns", list(both.keys()) == list(single.keys())
            yield "row 1 computed alone equals row 1 computed in company", conj([same_cell(both[k][1], single[k][0]) for k in both])

        lo, hi = st["lower_bound"], st["upper_bound"]
        span = hi - lo
        pre = [z3.And(z3.Real(f"y{i}") >= lo - span, z3.Real(f"y{i}") <= hi + span) for i in range(2)]
        rig.run_sym(check, "transform.row_independence", fn, claims, pre=pre, timeout_ms=tmo, case_id=f"layer1 {name} {kw}", max_paths=600, record=record,
                    sample={"transform": name, "state": "recorded from a concrete fit", "rows": "2 symbolic"})
