"""C05 — output types, entry points and materializers agree (Engine SR; sparse / Arrow legs as labelled ground companions)."""

from __future__ import annotations

import itertools
import zlib
import random

import numpy
import z3

from formulaic import Formula, ModelSpec, model_matrix
from formulaic.materializers import FormulaMaterializer
from lib.common import Check
from sr import rig
from sr.pipeline import sym_ab, symbolic_pipeline
from sr.symreal import conj, lift, model_value, same_cell

from . import matrix_common as mc
from . import replays

ENTRY_POINTS = ["model_matrix", "Formula.get_model_matrix", "ModelSpec.get_model_matrix", "ModelSpec.get_model_matrix+overrides", "materializer.get_model_matrix",
                "materialized ModelSpec.get_model_matrix", "model_matrix(materialized spec)"]


def build(entry, formula, data, ctx, drop=None, **opts):
    if drop is not None:
        call = {"drop_rows": set(drop)}  # the caller's set of row positions to leave out: a fresh set per call
    else:
        call = {}
    if entry == "ModelSpec.get_model_matrix":
        return ModelSpec.from_spec(Formula(formula), **opts).get_model_matrix(data, context=ctx, **call)
    if entry in ("materialized ModelSpec.get_model_matrix", "model_matrix(materialized spec)"):
        # a spec that has been through a build already (structure and state recorded), applied to the same data
        built = ModelSpec.from_spec(Formula(formula), **opts).get_model_matrix(data, context=ctx, **({"drop_rows": set(drop)} if drop is not None else {}))
        if entry.startswith("materialized"):
            return built.model_spec.get_model_matrix(data, context=ctx, **call)
        return model_matrix(built.model_spec, data, context=ctx, **call)
    if entry == "ModelSpec.get_model_matrix+overrides":
        # every option handed to the call itself, on a spec recorded with the defaults (and the other output type)
        other = "numpy" if opts.get("output") == "pandas" else "pandas"
        return ModelSpec.from_spec(Formula(formula), output=other).get_model_matrix(data, context=ctx, **call, **opts)
    opts = {**opts, **call}
    if entry == "model_matrix":
        return model_matrix(formula, data, context=ctx, **opts)
    if entry == "Formula.get_model_matrix":
        return Formula(formula).get_model_matrix(data, context=ctx, **opts)
    if entry == "ModelSpec.get_model_matrix":
        return ModelSpec.from_spec(Formula(formula), **opts).get_model_matrix(data, context=ctx)
    if entry == "materializer.get_model_matrix":
        mat = opts.pop("materializer", None)
        cls = FormulaMaterializer.for_materializer(mat) if mat else FormulaMaterializer.for_data(data)
        return cls(data, context=ctx).get_model_matrix(formula, **opts)
    raise ValueError(entry)


def families(check: Check):
    rng = random.Random(check.seed)
    cands = mc.candidate_terms(2, True, True)
    fams = [[t] for t in cands]
    pairs = [[s, t] for s, t in itertools.permutations(cands, 2) if s.key != t.key]
    rng.shuffle(pairs)
    fams += pairs[: (400 if check.tier == "thorough" else 25)]
    fams += [[mc.T(["a", "A", "B"])], [mc.T(["A"]), mc.T(["A", "B"], ["3"], False)], [mc.T(["b", "a", "A"]), mc.T(["B"])]]
    return fams


def run(check: Check) -> None:
    check.info["explanation"] = (
        "Engine SR: for each configuration the four entry points x {pandas, numpy} outputs x {pandas, narwhals-on-pandas} "
        "materializers are run on the same symbolic numeric columns; one QF_NRA identity per variant: same column order and "
        "cell-by-cell equality with the reference build for ALL numeric values. Companion ground legs (NOT solver-decided, "
        "counted separately): sparse output and narwhals on a pyarrow table evaluated at one concrete generic point."
    )
    check.info["rule"] = "configuration = (term family, intercept, ensure_full_rank); variants = entry point x output x materializer"
    check.bounds.update({"rows": mc.NROWS, "terms": "<=2 (+3 hand-picked)", "entry_points": ENTRY_POINTS, "dense_outputs": ["pandas", "numpy"],
                         "materializers": ["pandas", "narwhals(pandas frame)"]})
    check.out_of_scope += ["sparse output and pyarrow input for ALL values (only a concrete generic point: scipy.sparse / Arrow cannot hold symbolic cells)",
                           "null policies (C06)", "narwhals output type 'narwhals'"]
    tmo = 60000 if check.tier == "thorough" else 10000
    df = mc.cat_frame()
    n = mc.NROWS
    rng = random.Random(check.seed + 1)
    recorded = 0
    A0 = [float((3 * i + 1) % 7) + 0.5 for i in range(n)]
    B0 = [float((5 * i + 2) % 11) - 2.25 for i in range(n)]
    from . import formula_gen

    todo = [(mc.render_formula(fam, intercept), efr) for fam in families(check) for intercept, efr in itertools.product((True, False), (True, False))]
    gen = formula_gen.formulas(check.seed * 2 + 21, 300 if check.tier == "thorough" else 40, "nobranch")
    todo += [(f, efr) for f in gen for efr in (True, False)]
    # every coding has its own dense and sparse coding-matrix branch: the non-default options of each, explicitly
    todo += [(f, True) for f in ("C(A, contr.diff(backward=False)) + a", "C(B, contr.helmert(reverse=False, scale=True)):a + b",
                                 "C(A, contr.treatment(base='y')) + b", "C(B, contr.SAS(base='u')) + a:C(A, contr.SAS)", "C(A, contr.sum) + C(B, contr.diff(backward=False)):b")]
    check.bounds["generated_formulas"] = len(gen)
    for formula, efr in todo:
        if True:
            variants = [(e, o, m) for e in ENTRY_POINTS for o in ("pandas", "numpy") for m in (None, "narwhals")]
            if check.tier != "thorough":
                variants = [variants[0]] + rng.sample(variants[1:], 5)

            # a caller-supplied drop set is an option like any other: one configuration in three carries one (no level loses all its rows: text columns of the Arrow leg infer their levels from the rows that remain)
            drop = [[1, 3], [0], [2, 3, 6]][zlib.crc32(formula.encode()) % 9] if zlib.crc32(formula.encode()) % 9 < 3 else None

            def fn(formula=formula, efr=efr, variants=variants, drop=drop):
                a, b = sym_ab(n)
                ctx = {"a": a, "b": b}
                out = []
                with symbolic_pipeline():
                    ref = model_matrix(formula, df, context=ctx, ensure_full_rank=efr, output="pandas", **({"drop_rows": set(drop)} if drop else {}))
                    for e, o, m in variants:
                        opts = dict(ensure_full_rank=efr, output=o)
                        if m:
                            opts["materializer"] = m
                        out.append(build(e, formula, df, ctx, drop=drop, **opts))
                return ref, out

            def claims(res, variants=variants):
                ref, outs = res
                rl, rc = mc.matrix_cells(ref, "pandas")
                for (e, o, m), mm in zip(variants, outs):
                    tag = f"{e}/{o}/{m or 'pandas'}"
                    l, c = mc.matrix_cells(mm, o)
                    yield f"{tag}: same columns in the same order", l == rl and c.shape == rc.shape
                    if o == "pandas":
                        yield f"{tag}: DataFrame labels", list(mm.columns) == rl
                    if c.shape == rc.shape:
                        yield f"{tag}: same cells for all values", conj([same_cell(c[i, j], rc[i, j]) for i in range(c.shape[0]) for j in range(c.shape[1])])

            def rep(model, label, formula=formula, efr=efr, drop=drop):
                p = {"kind": "c05_agree", "formula": formula, "efr": efr, "drop": drop, "a": A0, "b": B0}
                cands = [p]
                if model is not None:  # (model is None when the code under test raised on symbolic input: generic point only)
                    cands.insert(0, dict(p, a=[model_value(model, z3.Real(f"a{i}")) for i in range(n)], b=[model_value(model, z3.Real(f"b{i}")) for i in range(n)]))
                for cand in cands:
                    bad = replays.run(cand)
                    if bad:
                        return ("agree", bad, cand)
                return None

            rig.run_sym(check, "agree", fn, claims, replay=rep, timeout_ms=tmo, case_id=f"{formula} efr={efr}",
                        sample={"formula": formula, "ensure_full_rank": efr, "caller_drop_rows": drop, "variants": [list(map(str, v)) for v in variants[:3]]}, record=recorded < 25)
            recorded += 1
            # ground companions
            for extra in ({}, {"unused_level": True, "mats": ["pandas"]}, {"unused_level": True, "mats": ["narwhals"]}):
                p = {"kind": "c05_agree", "formula": formula, "efr": efr, "a": A0, "b": B0, "legs": "sparse+arrow", "drop": drop, **extra}
                bad = replays.run(p)
                check.obligation("agree.sparse_arrow/ground", "refuted" if bad else "ground")
                if bad:
                    tag = bad.split(":", 1)[0]
                    site = ""
                    if extra.get("unused_level"):
                        site = f"::declared-but-unobserved levels,{extra['mats'][0]} materializer" + (",C()" if "C(" in formula else "")
                    check.violation(f"agree::{tag}{site}", bad, p)
