"""Native replays for the model-matrix properties (engine-free)."""
from __future__ import annotations

import itertools

import numpy
import pandas

from . import matrix_common as mc
from .replays import _close, replay


@replay("c02_matrix")
def _(p):
    from formulaic import model_matrix

    fam = [mc.T(f, l) for f, l in p["terms"]]
    layout = p.get("layout") or "crossed7"
    df = mc.full_frame(p["a"], p["b"], index=p.get("index"), layout=layout)
    if p.get("dtypes"):  # numeric columns of other dtypes (values must be representable: the harness passes integers)
        for col, dt in p["dtypes"].items():
            df[col] = df[col].astype(dt)
    kw = {"materializer": p["materializer"]} if p.get("materializer") else {}
    mm = model_matrix(p["formula"], df, ensure_full_rank=p["efr"], output=p["output"], **kw)
    if p["output"] == "sparse":
        labels = list(mm.model_spec.column_names)
        cells = numpy.asarray(mm.todense(), dtype=object).reshape((len(df), len(labels)))
    else:
        labels, cells = mc.matrix_cells(mm, p["output"])
    if p["output"] == "pandas" and list(mm.columns) != labels:
        return f"labels-differ-from-spec: {list(mm.columns)} vs {labels}"
    w = mc.layout_world(layout, p["a"], p["b"])
    for j, label in enumerate(labels):
        try:
            wants = [w.column(label, scale=sc) for sc in mc.term_scales_for_label(label, fam, w)]
        except KeyError as e:
            return f"uninterpretable-label: {e}"
        got = [float(v) for v in cells[:, j]]
        want = wants[0]
        if not any(numpy.allclose(got, wnt, rtol=1e-9, atol=1e-9) for wnt in wants):
            return f"cell-mismatch: formula {p['formula']!r} ensure_full_rank={p['efr']} column {label!r} holds {got}, its label denotes {want}"
    if not p["efr"]:
        exp = mc.expected_full_labels(mc.parsed_term_factors(p["formula"]), w)
        if labels != exp:
            return f"label-list-mismatch: formula {p['formula']!r} ensure_full_rank=False gives {labels}, complete Kronecker list is {exp}"
    return None


@replay("c05_agree")
def _(p):
    """All entry points x outputs (incl. sparse) x materializers (incl. narwhals on pyarrow) at one concrete point."""
    from formulaic import Formula, ModelSpec, model_matrix
    from formulaic.materializers import FormulaMaterializer

    import pandas

    df = mc.full_frame(p["a"], p["b"])
    if p.get("unused_level"):
        # declared-but-unobserved levels (one before, one after the observed ones): names and numbers must still agree
        df["A"] = pandas.Categorical(list(df["A"]), categories=["w"] + mc.A_LEVELS + ["zz"])
        df["B"] = pandas.Categorical(list(df["B"]), categories=["t"] + mc.B_LEVELS)
    efr, formula = p["efr"], p["formula"]
    drop = p.get("drop")
    call = (lambda: {"drop_rows": set(drop)}) if drop else (lambda: {})
    ref = model_matrix(formula, df, ensure_full_rank=efr, output="pandas", **call())
    rl = list(ref.model_spec.column_names)
    rc = numpy.asarray(ref, dtype=float).reshape((len(df) - len(drop or ()), len(rl)))
    datas = {"pandas": df}
    try:
        import pyarrow

        if not p.get("unused_level"):
            datas["arrow"] = pyarrow.Table.from_pandas(df.assign(A=df["A"].astype(str).astype(object), B=df["B"].astype(str).astype(object)), preserve_index=False)
    except Exception:
        pass

    def dense(mm, out):
        if out == "sparse":
            return numpy.asarray(mm.todense(), dtype=float)
        return numpy.asarray(mm, dtype=float).reshape((rc.shape[0], -1))

    for dname, data in datas.items():
        for mat in ((None, "narwhals") if dname == "pandas" else ("narwhals",)):
            if p.get("mats") and (mat or "pandas") not in p["mats"]:
                continue
            for out in ("pandas", "numpy", "sparse"):
                if p.get("legs") == "sparse+arrow" and not (out == "sparse" or dname == "arrow"):
                    continue
                for entry in (("model_matrix", "materializer", "ModelSpec+overrides", "materialized ModelSpec") if p.get("legs") else ("model_matrix", "Formula", "ModelSpec", "ModelSpec+overrides", "materialized ModelSpec", "materializer")):
                    opts = dict(ensure_full_rank=efr, output=out)
                    if mat:
                        opts["materializer"] = mat
                    if entry == "model_matrix":
                        mm = model_matrix(formula, data, **opts, **call())
                    elif entry == "Formula":
                        mm = Formula(formula).get_model_matrix(data, **opts, **call())
                    elif entry == "ModelSpec":
                        mm = ModelSpec.from_spec(Formula(formula), **opts).get_model_matrix(data, **call())
                    elif entry == "materialized ModelSpec":
                        built = ModelSpec.from_spec(Formula(formula), **opts).get_model_matrix(data, **call())
                        mm = built.model_spec.get_model_matrix(data, **call())
                    elif entry == "ModelSpec+overrides":
                        mm = ModelSpec.from_spec(Formula(formula), output="numpy" if out == "pandas" else "pandas").get_model_matrix(data, **call(), **opts)
                    else:
                        m = opts.pop("materializer", None)
                        cls = FormulaMaterializer.for_materializer(m) if m else FormulaMaterializer.for_data(data)
                        mm = cls(data).get_model_matrix(formula, **opts, **call())
                    tag = f"{entry}/{out}/{mat or 'pandas'}/{dname}"
                    l = list(mm.model_spec.column_names)
                    if l != rl:
                        return f"column-order-differs: {formula!r} efr={efr} {tag}: {l} vs {rl}"
                    if out == "pandas" and list(mm.columns) != rl:
                        return f"labels-differ-from-spec: {tag}"
                    c = dense(mm, out)
                    if c.shape != rc.shape or not numpy.allclose(c, rc, rtol=1e-12, atol=1e-12):
                        return f"cells-differ: {formula!r} efr={efr} {tag} differs from model_matrix/pandas"
    return None


def _c10_frame(a=None, b=None):
    import pandas

    n = mc.NROWS
    a = a if a is not None else [float(i + 2) for i in range(n)]
    b = b if b is not None else [float(3 * i + 1) % 7 + 0.5 for i in range(n)]
    df = mc.full_frame(a, b)
    df["K"] = pandas.Categorical(["k"] * n)
    return df


@replay("c10_meta")
def _(p):
    from formulaic import model_matrix
    from .c10_meta import metadata_findings as metadata_findings_native

    df = _c10_frame()
    mm = model_matrix(p["formula"], df, ensure_full_rank=p["efr"], output=p["output"])
    found = metadata_findings_native(mm, p["output"], p["terms"])
    for tag, msg in found:
        if p.get("tag") in (None, tag):
            return f"{tag}: {p['formula']!r} ensure_full_rank={p['efr']}: {msg}"
    return None


@replay("c10_clustered")
def _(p):
    from formulaic import model_matrix
    from .c10_meta import metadata_findings

    df = _c10_frame()
    mm = model_matrix(p["formula"], df, output=p["output"], cluster_by="numerical_factors")
    for tag, msg in metadata_findings(mm, p["output"], None, clustered=True):
        if "[factors not in sorted order]" in tag:
            continue
        return f"{tag}: {p['formula']!r} (cluster_by='numerical_factors', {p['output']}): {msg}"
    # each term's slice of the clustered matrix equals the columns its own subset regenerates
    spec = mm.model_spec
    full = numpy.asarray(mm.todense() if p["output"] == "sparse" else mm, dtype=float)
    for t, idx in spec.term_indices.items():
        sub = spec.subset([t]).get_model_matrix(df)
        sv = numpy.asarray(sub.todense() if p["output"] == "sparse" else sub, dtype=float).reshape((len(df), -1))
        if sv.shape[1] != len(idx) or not numpy.allclose(sv, full[:, idx]):
            return f"term-ranges: {p['formula']!r} (clustered): the columns at term_indices[{t!r}] = {idx} are not the columns that term regenerates"
    # subsets of SEVERAL terms (their request order may interleave the clusters): the subset's own metadata describes the matrix it
    # builds, and every term's columns are the parent's columns of that term
    import itertools

    terms = list(spec.term_indices)
    picks = [c for k in (2, 3) for c in itertools.combinations(terms, k)] + [tuple(t for t in terms if t is not u) for u in terms]
    for pick in picks:
        if not pick:
            continue
        sub = spec.subset(list(pick))
        m2 = sub.get_model_matrix(df)
        for tag, msg in metadata_findings(m2, p["output"], None, clustered=True):
            if "[factors not in sorted order]" in tag:
                continue
            return f"subset-{tag}: {p['formula']!r} (clustered) subset {[str(t) for t in pick]}: {msg}"
        v2 = numpy.asarray(m2.todense() if p["output"] == "sparse" else m2, dtype=float).reshape((len(df), -1))
        if p["output"] == "pandas" and list(m2.columns) != list(m2.model_spec.column_names):
            return f"subset-labels: {p['formula']!r} (clustered) subset {[str(t) for t in pick]}: matrix columns {list(m2.columns)}, its spec reports {list(m2.model_spec.column_names)}"
        for t, idx2 in m2.model_spec.term_indices.items():
            idx = spec.term_indices[t]
            if len(idx2) != len(idx) or not numpy.allclose(v2[:, idx2], full[:, idx]):
                return f"subset-term-ranges: {p['formula']!r} (clustered) subset {[str(u) for u in pick]}: the columns at term_indices[{str(t)!r}] = {list(idx2)} are not the parent's columns of that term"
    return None


@replay("c10_dupnames")
def _(p):
    from formulaic import model_matrix

    df = _c10_frame()
    df["a:b"] = [float(3 * i % 5) + 0.25 for i in range(len(df))]
    mm = model_matrix(p["formula"], df, output=p["output"])
    names = list(mm.model_spec.column_names)
    arr = numpy.asarray(mm.todense() if p["output"] == "sparse" else mm, dtype=float)
    if arr.ndim != 2 or arr.shape[1] != len(names):
        return f"columns-lost: {p['formula']!r} ({p['output']}): {len(names)} recorded column names {names}, matrix shape {arr.shape}"
    if p["output"] == "pandas" and list(mm.columns) != names:
        return f"labels-differ: {list(mm.columns)} vs {names}"
    ref = numpy.asarray(model_matrix(p["formula"], df, output="numpy"), dtype=float)
    if not numpy.allclose(arr, ref):
        return f"cells-differ: {p['formula']!r} ({p['output']}) differs from the numpy output"
    total = sum(len(v) for v in mm.model_spec.term_indices.values())
    if total != len(names):
        return f"term-ranges: term_indices cover {total} of {len(names)} columns"
    return None


@replay("c10_subset_meta")
def _(p):
    from formulaic import model_matrix
    from .c10_meta import metadata_findings

    df = _c10_frame()
    mm = model_matrix(p["formula"], df, ensure_full_rank=p["efr"], output=p["output"])
    sub = mm.model_spec.subset(p["subset"])
    sm = sub.get_model_matrix(df)
    for tag, msg in metadata_findings(sm, p["output"], p["subset"]):
        if p.get("tag") in (None, tag):
            return f"{tag}: subset({p['subset']}) of {p['formula']!r}: {msg}"
    return None


@replay("c10_subset")
def _(p):
    from formulaic import Formula, model_matrix

    df = _c10_frame(p["a"], p["b"])
    mm = model_matrix(p["formula"], df, ensure_full_rank=p["efr"], output=p["output"])
    labels, cells = mc.matrix_cells(mm, p["output"])
    import itertools

    fam = p["terms"]
    tix = {repr(t): idx for t, idx in mm.model_spec.term_indices.items()}
    for S in [[t] for t in fam] + [list(q) for q in itertools.permutations(fam, 2)]:
        want = [j for s in S for j in tix[repr(list(Formula([s]))[0])]]
        sub = mm.model_spec.subset(S)
        sm = sub.get_model_matrix(df)
        sl, sc = mc.matrix_cells(sm, p["output"])
        if sorted(sl) != sorted(labels[j] for j in want):
            return f"subset-columns: subset({S}) of {p['formula']!r} has columns {sl}, parent's are {[labels[j] for j in want]}"
        if want and not numpy.allclose(numpy.asarray(sc, dtype=float), numpy.asarray(cells[:, [labels.index(nm) for nm in sl]], dtype=float)):
            return f"subset-cells: subset({S}) of {p['formula']!r} regenerates different values"
    return None


# ------------------------------------------------------------------------------------------------ C04

_A_TRAIN = [0.5, 1.25, 2.0, 3.5, 4.75, 6.0, 7.5]
_B_TRAIN = [1.0, 7.0, 2.5, 5.5, 0.25, 3.0, 6.5]


def _arr(mm):
    return numpy.asarray(mm, dtype=float).reshape((-1, len(mm.model_spec.column_names)))


@replay("c04_replay")
def _(p):
    import itertools
    import pickle

    from formulaic import model_matrix

    n = mc.NROWS
    df = mc.full_frame(p["a"], p["b"])
    out = p["output"]
    mm = model_matrix(p["formula"], df, output=out)
    spec = mm.model_spec
    labels = list(spec.column_names)
    ref = _arr(mm)
    if not numpy.all(numpy.isfinite(ref)):
        return None
    again = spec.get_model_matrix(df)
    if list(again.model_spec.column_names) != labels or not numpy.allclose(_arr(again), ref, rtol=1e-9, atol=1e-9):
        return f"original-data-not-reproduced: {p['formula']!r}: spec.get_model_matrix(training data) differs from the matrix it came from"
    maps = [[k] for k in range(n)] + [list(q) for q in itertools.product(range(n), repeat=2)] + [[6, 2, 2], [1, 5, 0], [4, 4, 4]]
    for sp, nm in ((spec, "spec"), (pickle.loads(pickle.dumps(spec)), "pickled spec")):
        for pi in maps:
            d2 = df.iloc[pi].reset_index(drop=True)
            m2 = sp.get_model_matrix(d2)
            if list(m2.model_spec.column_names) != labels:
                return f"names-changed: {p['formula']!r}: {nm} on rows {pi} gives columns {list(m2.model_spec.column_names)} instead of {labels}"
            if not numpy.allclose(_arr(m2), ref[pi], rtol=1e-9, atol=1e-9):
                return f"rows-not-replayed: {p['formula']!r}: {nm} on training rows {pi} gives {_arr(m2).tolist()}, the recorded encoding of those rows is {ref[pi].tolist()}"
    y = p["y"]
    d3 = mc.full_frame([y[0], p["a"][2]], [y[1], p["b"][2]], a_rows=["z", mc.A_ROWS[2]], b_rows=["u", mc.B_ROWS[2]])
    try:
        m3 = _arr(spec.get_model_matrix(d3))
        m1 = _arr(spec.get_model_matrix(d3.iloc[[0]].reset_index(drop=True)))
    except ValueError as e:
        if "extend beyond" in str(e):
            return None
        raise
    if not numpy.allclose(m3[1], ref[2], rtol=1e-9, atol=1e-9):
        return f"state-refitted: {p['formula']!r}: a training row mixed with new rows is encoded as {m3[1].tolist()}, at training time it was {ref[2].tolist()}"
    if not numpy.allclose(m3[0], m1[0], rtol=1e-9, atol=1e-9, equal_nan=True):
        return f"row-dependence: {p['formula']!r}: a new row's encoding depends on the other rows"
    return None


@replay("c04_follow")
def _(p):
    import pickle

    from formulaic import model_matrix

    dtrain = mc.full_frame(_A_TRAIN, _B_TRAIN)
    mm0 = model_matrix(p["formula"], dtrain)
    spec = mm0.model_spec
    labels = list(spec.column_names)
    (A0, B0), (A1, B1) = p["cats"]
    y = p["y"]

    def build(sp, rows, cat_mode=None):
        import pandas

        d = mc.full_frame([r[0] for r in rows], [r[1] for r in rows], a_rows=[r[2] for r in rows], b_rows=[r[3] for r in rows])
        cat_mode = cat_mode or p.get("cat_mode") or "full"
        ar, br = [r[2] for r in rows], [r[3] for r in rows]
        if cat_mode == "inferred":
            d["A"], d["B"] = pandas.Categorical(ar), pandas.Categorical(br)
        elif cat_mode == "reversed":
            d["A"], d["B"] = pandas.Categorical(ar, categories=mc.A_LEVELS[::-1]), pandas.Categorical(br, categories=mc.B_LEVELS[::-1])
        elif cat_mode == "object":
            d["A"], d["B"] = pandas.Series(ar, dtype=object), pandas.Series(br, dtype=object)
        m = sp.get_model_matrix(d)
        if list(m.model_spec.column_names) != labels:
            raise AssertionError(f"names-changed: {p['formula']!r}: follow-up columns {list(m.model_spec.column_names)} instead of {labels}")
        return _arr(m)

    r0, r1 = (y[0], y[1], A0, B0), (y[2], y[3], A1, B1)
    try:
        two, sw, one, dup = build(spec, [r0, r1]), build(spec, [r1, r0]), build(spec, [r0]), build(spec, [r0, r0])
        twop = build(pickle.loads(pickle.dumps(spec)), [r0, r1])
        alts = {m: build(spec, [r0, r1], m) for m in ("inferred", "reversed", "object")} if not p.get("lost") else {}
        full = build(spec, [r0, r1], "full")
    except ValueError as e:
        if "extend beyond" in str(e):
            return None
        raise
    except AssertionError as e:
        return str(e)
    eq = lambda u, v: numpy.allclose(u, v, rtol=1e-9, atol=1e-9, equal_nan=True)
    if not (eq(two[0], sw[1]) and eq(two[1], sw[0])):
        return f"reorder-changes-rows: {p['formula']!r} at {y}"
    if not eq(two[0], one[0]):
        return f"row-dependence: {p['formula']!r}: row alone {one[0].tolist()} vs in company {two[0].tolist()} at {y}"
    if not (eq(dup[0], one[0]) and eq(dup[1], one[0])):
        return f"duplicate-changes-rows: {p['formula']!r} at {y}"
    if not eq(twop, two):
        return f"pickle-changes-behaviour: {p['formula']!r} at {y}"
    for m, alt in alts.items():
        if not eq(alt, full):
            return f"declared-categories-change-encoding: {p['formula']!r}: a follow-up frame declaring its categories as {m!r} is encoded as {alt.tolist()}, the recorded levels give {full.tolist()}"
    if p.get("lost"):
        for j, lab in enumerate(labels):
            if any(tok in lab for tok in ("[T.y]", "[T.z]", "[y]", "[z]", "[T.v]", "[v]")) and "contr." not in lab:
                if not numpy.allclose(two[:, j], 0):
                    return f"lost-level-column-not-zero: {p['formula']!r}: column {lab!r} = {two[:, j].tolist()} although its level is absent"
    return None


# ------------------------------------------------------------------------------------------------ C06 / C07


@replay("c06_config")
def _(p):
    from . import na_common as na

    cfg = p["cfg"]
    tag = [100.0 + 3 * k for k in range(cfg["n"])]
    problems, claims = na.check_config(cfg, tag, lambda cell, k: abs(float(cell) - tag[k]) < 1e-12)
    for label, ok in claims:
        if not ok:
            problems.append(("wrong-rows", f"{label}: it holds another row's value"))
    for tg, msg in problems:
        if p.get("tag") in (None, tg):
            return f"{tg}: {cfg['formula']!r} na_action={cfg['na_action']} nulls z={cfg['z_nulls']} w={cfg['w_nulls']} A={cfg['a_nulls']} caller={cfg['caller']}: {msg}"
    return None


@replay("c07_config")
def _(p):
    from . import c07_common as cc

    cfg = p["cfg"]
    vals = p.get("values") or {"t": [100.0 + 3 * k for k in range(cc.N)], "a": [0.5, 2.0, 3.25, 7.0], "b": [4.0, 1.5, 6.0, 2.5]}
    tag = vals["t"]

    def same(u, v):
        u, v = float(u), float(v)
        return (numpy.isnan(u) and numpy.isnan(v)) or abs(u - v) <= 1e-9 * max(1.0, abs(u))

    problems, claims = cc.check_config(cfg, vals, same=same, tag_eq=lambda cell, k: abs(float(cell) - tag[k]) < 1e-12, symbolic=False)
    for label, ok in claims:
        if not ok:
            problems.append(("cells-differ", label))
    for tg, msg in problems:
        if p.get("tag") in (None, tg):
            return f"{tg}: spec {cc.SPECS[cfg['spec_id']][1]!r} nulls z={cc.NULL_SETS[cfg['z']]} w={cc.NULL_SETS[cfg['w']]} A={cc.NULL_SETS[cfg['A']]} index={cfg['index']} output={cfg['output']}: {msg}"
    return None


@replay("c04_native_replay")
def _(p):
    import pickle

    from formulaic import model_matrix

    df = mc.full_frame(_A_TRAIN, _B_TRAIN)
    kw = {"materializer": p["materializer"]} if p.get("materializer") else {}
    out = p["output"]
    dense = lambda m: numpy.asarray(m.todense() if out == "sparse" else m, dtype=float).reshape((-1, len(m.model_spec.column_names)))
    mm = model_matrix(p["formula"], df, output=out, **kw)
    ref = dense(mm)
    names = list(mm.model_spec.column_names)
    for spec, how in ((mm.model_spec, "spec"), (pickle.loads(pickle.dumps(mm.model_spec)), "pickled spec")):
        for rows, keep_labels in itertools.product(([0, 1, 2, 3, 4, 5, 6], [6, 2, 2], [3], [1, 5, 0], [4, 4, 4, 0], [6, 5, 4, 3, 2, 1, 0]), (False, True)):
            # follow-up frames keep the row labels they were cut out with (reversed, duplicated, not starting at 0) or are re-indexed
            sub = df.iloc[rows] if keep_labels else df.iloc[rows].reset_index(drop=True)
            try:
                got = spec.get_model_matrix(sub)
            except Exception as e:
                return f"replay-raises: {p['formula']!r} ({out}): {how} on rows {rows} (labels kept: {keep_labels}) raised {type(e).__name__}: {str(e)[:100]}"
            if list(got.model_spec.column_names) != names:
                return f"names-differ: {p['formula']!r} ({out}): {how} on rows {rows} gives columns {list(got.model_spec.column_names)[:6]}"
            g = dense(got)
            if g.shape != (len(rows), len(names)) or not numpy.allclose(g, ref[rows], rtol=1e-9, atol=1e-12, equal_nan=True):
                return f"rows-differ: {p['formula']!r} ({out}): {how} on rows {rows} (labels kept: {keep_labels}) does not reproduce the recorded rows"
    return None


# ------------------------------------------------------------------------------------------------ C03


@replay("c03_family")
def _(p):
    """Native float check at two generic points: rank and span via numpy.linalg."""
    import pandas
    from formulaic import Formula, model_matrix

    LEVELS = {"A": ["p", "q"], "B": ["r", "s", "t"], "D": ["u", "v"], "E": ["w"], "Z": [0, 1, 2]}
    results = []
    for point in (0, 1):
        rows = [(a, b, c) for a in LEVELS["A"] for b in LEVELS["B"] for c in LEVELS["D"]] * 3
        n = len(rows)
        num = [((37 * (i + 1) + 101 * point) % 53) / 4.0 + 0.25 + point for i in range(n)]
        df = pandas.DataFrame({"A": pandas.Categorical([r[0] for r in rows], categories=LEVELS["A"]), "B": pandas.Categorical([r[1] for r in rows], categories=LEVELS["B"]),
                               "D": pandas.Categorical([r[2] for r in rows], categories=LEVELS["D"]), "E": pandas.Categorical(["w"] * n, categories=LEVELS["E"]),
                               "Z": pandas.Categorical([(i * 5 + i // 3) % 3 for i in range(n)], categories=LEVELS["Z"]), "a": numpy.array(num)})
        tl = list(p["terms"])
        if p.get("contrast"):
            tl = [":".join(f"C({f}, contr.{p['contrast']})" if f in LEVELS else f for f in t.split(":")) for t in tl]
        F = Formula((["1"] if p["intercept"] else []) + tl, _ordering="none")
        kw = dict(cluster_by="numerical_factors") if p["cluster"] else {}
        R = numpy.asarray(model_matrix(F, df, ensure_full_rank=True, output="numpy", **kw), dtype=float)
        Fm = numpy.asarray(model_matrix(F, df, ensure_full_rank=False, output="numpy", **kw), dtype=float)
        rk = lambda M: int(numpy.linalg.matrix_rank(M, tol=1e-8)) if M.size else 0
        rR, rF, rB = rk(R), rk(Fm), rk(numpy.hstack([R, Fm]))
        if rR < R.shape[1]:
            results.append(f"rank-deficient: terms {p['terms']} intercept={p['intercept']}: reduced matrix has {R.shape[1]} columns of rank {rR}")
        elif rB > rR:
            results.append(f"span-shrunk: terms {p['terms']} intercept={p['intercept']}: rank(reduced)={rR} < rank([reduced|unreduced])={rB}")
        elif rB > rF:
            results.append(f"span-grown: terms {p['terms']} intercept={p['intercept']}: rank(unreduced)={rF} < rank([reduced|unreduced])={rB}")
        else:
            results.append(None)
    return results[0] if results[0] and results[1] else None


# ------------------------------------------------------------------------------------------------ C11


@replay("c11_coding")
def _(p):
    from .c11_ground import ground_for

    return ground_for(p["n"], p["tag"], p["ltype"])


@replay("c11_poly_scores")
def _(p):
    from formulaic.transforms.contrasts import PolyContrasts

    s = [float(v) for v in p["scores"]]
    if len(set(s)) < len(s):
        return None
    m = numpy.asarray(PolyContrasts(scores=s)._get_coding_matrix(list(range(len(s))), reduced_rank=True), dtype=float)
    if not numpy.allclose(m.T @ m, numpy.eye(m.shape[1]), atol=1e-7) or not numpy.allclose(m.sum(axis=0), 0, atol=1e-7):
        return f"poly-not-orthonormal: scores {s} give {m.tolist()}"
    return None


@replay("c11_pipeline")
def _(p):
    import pandas
    from formulaic import model_matrix
    from oracle import contrasts_ref as ref

    from .c11_ground import pipeline_specs

    table = {sp: (coding, lv) for sp, coding, lv in pipeline_specs()}
    coding, lv = table[p["spec"]]
    rows = ["x", "y", "z", "y", "x", "z", None]
    df = pandas.DataFrame({"A": pandas.Categorical(rows, categories=["x", "y", "z"]), "a": numpy.array(p["a"], dtype=float)})
    formula = p["formula"]
    out = p.get("output", "numpy")
    mm = model_matrix(formula, df, output=out)
    labels = list(mm.model_spec.column_names)
    kept = [i for i, r in enumerate(rows) if r is not None]
    cells = numpy.asarray(mm.todense() if out == "sparse" else mm, dtype=float).reshape((-1, len(labels)))
    if cells.shape[0] != len(kept):
        return f"null-rows-kept: {cells.shape[0]} rows"
    reduced = formula.startswith("1 + C(") or formula.startswith("1 + a + a:")
    want = coding if reduced else numpy.eye(len(lv))
    cat_cols = [j for j, l in enumerate(labels) if p["spec"] in l]
    if len(cat_cols) != want.shape[1]:
        return f"wrong-column-count: {formula!r} has {len(cat_cols)} columns for the factor, expected {want.shape[1]} ({labels})"
    with_a = "a:" in formula
    for r, i in enumerate(kept):
        li = lv.index(rows[i]) if rows[i] in lv else None
        for c, j in enumerate(cat_cols):
            w = (want[li, c] if li is not None else 0.0) * (p["a"][i] if with_a else 1.0)
            if abs(cells[r, j] - w) > 1e-7 * (1 + abs(w)):
                return f"encoding-mismatch: {formula!r}{'' if out == 'numpy' else ' (output=' + out + ')'} row {i} (level {rows[i]!r}) column {labels[j]!r} = {cells[r, j]}, indicator x coding gives {w}"
    return None


# ------------------------------------------------------------------------------------------------ C09


@replay("c09_kind")
def _(p):
    import pandas
    from formulaic import model_matrix
    from formulaic.errors import FactorEncodingError

    dtrain = mc.full_frame(_A_TRAIN, _B_TRAIN)
    spec = model_matrix(p["formula"], dtrain, output=p["output"]).model_spec
    d2 = dtrain.copy()
    if p["to"] == "numeric":
        d2[p["var"]] = numpy.array(p.get("x") or [float(i) for i in range(len(d2))], dtype=float)
    else:
        d2[p["var"]] = pandas.Categorical(["k", "l", "k", "m", "l", "k", "m"])
    try:
        mm = spec.get_model_matrix(d2)
    except FactorEncodingError:
        return None
    except Exception as e:
        return f"wrong-error-type: {p['formula']!r}: {p['var']} arriving as {p['to']} raised {type(e).__name__}: {str(e)[:100]} instead of FactorEncodingError"
    return f"matrix-returned: {p['formula']!r}: {p['var']} recorded as {'categorical' if p['to'] == 'numeric' else 'numerical'} arrived as {p['to']} and a matrix with columns {list(mm.model_spec.column_names)} was returned"


@replay("c09_unseen")
def _(p):
    import warnings

    import pandas
    from formulaic import model_matrix
    from formulaic.errors import DataMismatchWarning

    dtrain = mc.full_frame(_A_TRAIN, _B_TRAIN)
    out = p["output"]
    spec = model_matrix(p["formula"], dtrain, output=out).model_spec
    if p.get("via_subset"):
        spec = spec.subset([t for t in spec.formula if repr(t) != "1"] or list(spec.formula))
    labels0 = list(spec.column_names)
    d2 = dtrain.copy()
    rows2 = list({"A": mc.A_ROWS, "B": mc.B_ROWS}[p["var"]])
    rows2[1] = rows2[4] = "NEW"
    d2[p["var"]] = pandas.Categorical(rows2)
    with warnings.catch_warnings(record=True) as w:
        warnings.simplefilter("always")
        ref = spec.get_model_matrix(dtrain)
        n0 = len([x for x in w if issubclass(x.category, DataMismatchWarning)])
        if p.get("via_subset"):  # the parent spec has met the unseen level before the derived one does
            model_matrix(p["formula"], dtrain, output=out).model_spec.get_model_matrix(d2)
        parent_warned = len([x for x in w if issubclass(x.category, DataMismatchWarning)])
        got = spec.get_model_matrix(d2)
        n1 = len([x for x in w if issubclass(x.category, DataMismatchWarning)]) - parent_warned
        spec.get_model_matrix(d2)
        n2 = len([x for x in w if issubclass(x.category, DataMismatchWarning)]) - parent_warned
    if n1 > 0 and n2 <= n1:
        return f"no-warning-on-repeat: {p['formula']!r}: the second application of the same spec to data with the unseen level of {p['var']} raised no DataMismatchWarning"
    if list(got.model_spec.column_names) != labels0:
        return f"columns-changed: {p['formula']!r}: an unseen level of {p['var']} changed the columns to {list(got.model_spec.column_names)}"
    r, g = _arr(ref), _arr(got)
    if r.shape != g.shape:
        return f"shape-changed: {g.shape} vs {r.shape}"
    if not (n0 == 0 and n1 > 0):
        return f"no-warning: DataMismatchWarning count clean={n0} unseen={n1}"
    keep = [i for i in range(len(dtrain)) if i not in (1, 4)]
    if not numpy.allclose(r[keep], g[keep], equal_nan=True):
        return "other-rows-changed: rows without the unseen level changed"
    touched = [j for j, l in enumerate(labels0) if f"{p['var']}[" in l]
    if touched and not numpy.allclose(g[[1, 4]][:, touched], 0):
        return f"unseen-rows-not-zero: {g[[1, 4]][:, touched].tolist()}"
    return None


@replay("c09_lost_level")
def _(p):
    from formulaic import model_matrix

    dtrain = mc.full_frame(_A_TRAIN, _B_TRAIN)
    out = p["output"]
    dense = lambda m: numpy.asarray(m.todense() if out == "sparse" else m, dtype=float).reshape((-1, len(m.model_spec.column_names)))
    mm = model_matrix(p["formula"], dtrain, output=out)
    spec, names, ref = mm.model_spec, list(mm.model_spec.column_names), dense(mm)
    keep = [i for i, v in enumerate(mc.A_ROWS) if v != p["lost"]]
    follow = dtrain.iloc[keep].reset_index(drop=True)
    follow["A"] = pandas.Categorical(list(follow["A"]))  # re-declared from the observed values: the lost level is gone from the dtype too
    try:
        got = spec.get_model_matrix(follow)
    except Exception as e:
        return f"raises: {p['formula']!r} ({out}): follow-up data without level {p['lost']!r} raised {type(e).__name__}: {str(e)[:100]}"
    if list(got.model_spec.column_names) != names:
        return f"columns-changed: {p['formula']!r} ({out}): {list(got.model_spec.column_names)} vs recorded {names}"
    g = dense(got)
    if g.shape != (len(keep), len(names)) or not numpy.allclose(g, ref[keep], rtol=1e-9, atol=1e-12):
        return f"cells-changed: {p['formula']!r} ({out}): without the rows of level {p['lost']!r} the remaining rows are not encoded as at training time"
    return None


@replay("c09_numeric_levels")
def _(p):
    import pandas
    from formulaic import model_matrix
    from formulaic.errors import FactorEncodingError

    n = 7
    train = pandas.DataFrame({"G": pandas.Categorical([1, 2, 3, 1, 2, 3, 2]), "H": pandas.Categorical([True, False, True, True, False, False, True]),
                              "a": [0.5, 1.5, 2.0, 3.5, 4.0, 5.5, 6.0], "b": [2.0, 1.0, 4.0, 3.0, 6.0, 5.0, 7.0]})
    spec = model_matrix(p["formula"], train).model_spec
    follow = train.copy()
    col, how = p["col"], p["how"]
    base = [1, 2, 3, 1, 2, 3, 2] if col == "G" else [1, 0, 1, 1, 0, 0, 1]
    if how == "int":
        follow[col] = numpy.array(base, dtype="int64")
    elif how == "float":
        follow[col] = numpy.array(base, dtype=float)
    elif how == "bool":
        follow[col] = numpy.array(base, dtype=float) > 1.5 if col == "G" else numpy.array(base, dtype=bool)
    else:
        follow = follow.iloc[:0].copy()
        follow[col] = numpy.array([], dtype=float)
    try:
        mm = spec.get_model_matrix(follow)
    except FactorEncodingError:
        return None
    except Exception as e:
        return f"wrong-error: {p['formula']!r}: categorical {col} (levels {sorted(set(base))}) arriving as a plain {how} column raised {type(e).__name__}: {str(e)[:100]}"
    return f"no-error: {p['formula']!r}: categorical {col} arriving as a plain {how} column of its own level values produced a {mm.shape} matrix instead of FactorEncodingError"


@replay("c09_redeclared")
def _(p):
    import warnings

    import pandas
    from formulaic import model_matrix
    from formulaic.errors import DataMismatchWarning

    dtrain = mc.full_frame(_A_TRAIN, _B_TRAIN)
    out = p["output"]
    spec = model_matrix(p["formula"], dtrain, output=out).model_spec
    labels0 = list(spec.column_names)
    d2 = dtrain.copy()
    d2[p["var"]] = pandas.Categorical({"A": mc.A_ROWS, "B": mc.B_ROWS}[p["var"]], categories=p["cats"], ordered=(len(p["cats"]) % 2 == 0))
    with warnings.catch_warnings(record=True) as w:
        warnings.simplefilter("always")
        ref = spec.get_model_matrix(dtrain)
        try:
            got = spec.get_model_matrix(d2)
            again = spec.get_model_matrix(dtrain)
        except Exception as e:
            return f"raises: {p['formula']!r}: {p['var']} arriving with declared categories {p['cats']} (same rows) raised {type(e).__name__}: {str(e)[:120]}"
        nw = len([x for x in w if issubclass(x.category, DataMismatchWarning)])
    for tag, m in (("follow-up", got), ("recorded spec afterwards", again)):
        if list(m.model_spec.column_names) != labels0:
            return f"columns-changed: {p['formula']!r}: {tag}: {list(m.model_spec.column_names)} vs recorded {labels0}"
        r, g = _arr(ref), _arr(m)
        if r.shape != g.shape or not numpy.allclose(r, g, equal_nan=True):
            return f"cells-changed: {p['formula']!r}: {tag}: declared categories {p['cats']} of {p['var']} changed the numbers"
    if nw:
        return f"spurious-warning: DataMismatchWarning although every observed level was recorded"
    return None


# ------------------------------------------------------------------------------------------------ C18


@replay("c18_history")
def _(p):
    from . import c18_common as cc

    n = mc.NROWS
    d1 = mc.full_frame(_A_TRAIN, _B_TRAIN)
    d2 = mc.full_frame([v * 1.5 + 2 for v in _B_TRAIN], [v - 3 for v in _A_TRAIN], a_rows=list(reversed(mc.A_ROWS)))
    d1["z"] = numpy.arange(n, dtype=float) + 0.5
    d2["z"] = [numpy.nan if k in cc.Z_NULLS_D2 else 10.0 + k for k in range(n)]
    d1["x 1"] = [v * 0.5 - 1.25 for v in _B_TRAIN]
    d2["x 1"] = [v * 2.0 + 7.5 for v in _A_TRAIN]
    d1["x_1"] = [v * 1.5 + 0.25 for v in _A_TRAIN]
    d2["x_1"] = [v * 0.5 - 2.0 for v in _B_TRAIN]

    def same(u, v):
        u, v = float(u), float(v)
        return (numpy.isnan(u) and numpy.isnan(v)) or u == v  # bit-identical

    import pandas

    d3 = pandas.DataFrame({"a": pandas.Categorical(["p", "q", "r", "p", "q", "r", "p"]), "B": d1["B"], "z": d1["z"], "A": [v + 0.5 for v in _A_TRAIN], "b": _B_TRAIN})
    problems, claims = cc.run_history(p["formula"], tuple(p["history"]), {1: (d1, {}), 2: (d2, {}), 3: (d3, {})}, same, lambda num: None)
    for label, cs, tag in claims:
        if not all(cs):
            problems.append((tag, f"{label}: values differ"))
    for tg, msg in problems:
        if p.get("tag") in (None, tg):
            return f"{tg}: formula {p['formula']!r}: {msg}"
    return None


@replay("c18_shadow")
def _(p):
    import os
    import subprocess

    r = subprocess.run(["/venv/bin/python", "-m", "harness.c18_shadow"], cwd="/verif", capture_output=True, text=True, timeout=600, env={**os.environ})
    lines = [l[len("PROBLEM "):] for l in r.stdout.splitlines() if l.startswith("PROBLEM ")]
    return lines[0] if lines else None


@replay("c18_context_arrays")
def _(p):
    from . import c18_common as cc

    for tg, msg in cc.context_array_problems(p["formula"], tuple(p["history"])):
        return f"{tg}: formula {p['formula']!r} (a, b as float64 arrays in the context): {msg}"
    return None


# ------------------------------------------------------------------------------------------------ C20


@replay("c20_routes")
def _(p):
    import pandas
    from formulaic import Formula, ModelSpec, model_matrix

    f, wrt = p["formula"], p["wrt"]
    if "~" in f or "|" in f:
        F = Formula(f)
        want = F._map(lambda part: [repr(t) for t in part.differentiate(*wrt)])._to_dict()
        got = F.differentiate(*wrt)._map(lambda part: [repr(t) for t in part])._to_dict()
        if got != want:
            return f"derivative-routes-differ: d/d{wrt} of {f!r}: StructuredFormula.differentiate gives {got}, differentiating each part gives {want}"
        df = pandas.DataFrame({c: [float(i + 1 + 2 * k) for i in range(4)] for k, c in enumerate("yabc")})
        for how, specs in (("fresh", ModelSpec.from_spec(F)), ("materialized", model_matrix(f, df).model_spec)):
            got = specs.differentiate(*wrt)._map(lambda sp: [repr(t) for t in sp.formula])._to_dict()
            if got != want:
                return f"derivative-routes-differ: d/d{wrt} of {f!r}: ModelSpecs.differentiate ({how}) gives {got}, differentiating each part gives {want}"
        return None
    cols = sorted({str(v).split(".")[0] for v in Formula(f).required_variables} | {w for w in wrt})
    import re

    cols = sorted(set(re.findall(r"`[^`]*`|[A-Za-z_]\w*", f)))
    cols = [c.strip("`") for c in cols]
    df = pandas.DataFrame({c: [float(i + 1 + 2 * k) for i in range(4)] for k, c in enumerate(cols)})
    want = [repr(t) for t in Formula(f).differentiate(*wrt)]
    got1 = [repr(t) for t in ModelSpec(formula=Formula(f)).differentiate(*wrt).formula]
    got2 = [repr(t) for t in model_matrix(f, df).model_spec.differentiate(*wrt).formula]
    if got1 != want or got2 != want:
        return f"derivative-routes-differ: d/d{wrt} of {f!r}: Formula.differentiate gives {want}, ModelSpec.differentiate {got1} (fresh) / {got2} (materialized)"
    return None


@replay("c20_values")
def _(p):
    import itertools

    from formulaic import Formula, model_matrix

    fam, wrt, h = p["terms"], p["wrt"], p["h"]
    if any(abs(x) < 1e-6 for x in h):
        return None
    F = Formula(fam, _ordering="none")
    D = F.differentiate(*wrt)
    terms, dterms = list(F), list(D)
    if len(terms) != len(dterms):
        return f"term-count-differs: {len(terms)} terms differentiate to {len(dterms)}"

    def cols(term, a, b):
        df = mc.full_frame(a, b)
        mm = model_matrix(Formula([term], _ordering="none"), df, ensure_full_rank=False, output="numpy")
        return numpy.asarray(mm, dtype=float).reshape((len(df), -1))

    for t, d in zip(terms, dterms):
        acc = None
        for signs in itertools.product((0, 1), repeat=len(wrt)):
            a, b = list(p["a"]), list(p["b"])
            for use, var, hh in zip(signs, wrt, h):
                if use:
                    if var == "a":
                        a = [x + hh for x in a]
                    else:
                        b = [x + hh for x in b]
            c = ((-1) ** (len(wrt) - sum(signs))) * cols(t, a, b)
            acc = c if acc is None else acc + c
        fd = acc / numpy.prod(h)
        if repr(d) == "0":
            if not numpy.allclose(fd, 0, atol=1e-7):
                return f"nonzero-derivative-reported-zero: d/d{wrt} of {t!r} is reported as 0 but the finite difference is {fd[0].tolist()}"
            continue
        dc = cols(d, p["a"], p["b"])
        if dc.shape != fd.shape or not numpy.allclose(dc, fd, rtol=1e-6, atol=1e-6):
            return f"derivative-mismatch: d/d{wrt} of {t!r} is reported as {d!r} whose columns are {dc[0].tolist()} (row 0), finite difference gives {fd[0].tolist()}"
    return None


@replay("c18_hashseed")
def _(p):
    import os
    import subprocess

    outs = []
    for sd in p["seeds"]:
        r = subprocess.run(["/venv/bin/python", "-m", "harness.c18_hashseed"], cwd="/verif", env={**os.environ, "PYTHONHASHSEED": str(sd)}, capture_output=True, text=True, timeout=600)
        outs.append(r.stdout.strip().splitlines())
    for l0, l1 in zip(*outs):
        if l0 != l1:
            return f"hash-seed-dependence: {l0.split(' ', 2)[2]!r} differs between PYTHONHASHSEED={p['seeds'][0]} and {p['seeds'][1]}"
    return None
