"""Native replays for the model-matrix properties (engine-free)."""
from __future__ import annotations

import numpy

from . import matrix_common as mc
from .replays import _close, replay


@replay("c02_matrix")
def _(p):
    from formulaic import model_matrix

    fam = [mc.T(f, l) for f, l in p["terms"]]
    df = mc.full_frame(p["a"], p["b"])
    mm = model_matrix(p["formula"], df, ensure_full_rank=p["efr"], output=p["output"])
    labels, cells = mc.matrix_cells(mm, p["output"])
    if p["output"] == "pandas" and list(mm.columns) != labels:
        return f"labels-differ-from-spec: {list(mm.columns)} vs {labels}"
    w = mc.world(p["a"], p["b"])
    for j, label in enumerate(labels):
        try:
            wants = [w.column(label, scale=sc) for sc in mc.term_scales_for_label(label, fam, w)]
        except KeyError as e:
            return f"uninterpretable-label: {e}"
        got = [float(v) for v in cells[:, j]]
        want = wants[0]
        if not any(numpy.allclose(got, wnt, rtol=1e-9, atol=1e-9) for wnt in wants):
            return f"cell-mismatch: formula {p['formula']!r} ensure_full_rank={p['efr']} column {label!r} holds {got}, its label denotes {want}"
    if not p["efr"]:
        exp = mc.expected_full_labels(mc.parsed_term_factors(p["formula"]), w)
        if labels != exp:
            return f"label-list-mismatch: formula {p['formula']!r} ensure_full_rank=False gives {labels}, complete Kronecker list is {exp}"
    return None
