"""C02 — every model-matrix column holds the product its label denotes (Engine SR through the real pipeline)."""

from __future__ import annotations

import itertools
import zlib
import random

import z3

from formulaic import model_matrix
from lib.common import Check
from sr import rig
from sr.pipeline import sym_ab, symbolic_pipeline
from sr.symreal import lift, model_value

from . import matrix_common as mc
from . import replays


def configs(check: Check):
    thorough = check.tier == "thorough"
    rng = random.Random(check.seed)
    cands = mc.candidate_terms(3, True, True)
    singles = [[t] for t in cands]
    pairs = [[s, t] for s, t in itertools.permutations(cands, 2) if s.key != t.key]
    triples_pool = [t for t in cands if len(t.factors) <= 2]
    rng.shuffle(pairs)
    fams = list(singles)
    fams += pairs if thorough else pairs[:120]
    ntri = 1500 if thorough else 40
    for _ in range(ntri):
        tr = rng.sample(triples_pool, 3)
        if len({t.key for t in tr}) == 3:
            fams.append(tr)
    # hand-picked core: the scalings / recombination shapes that matter
    core = [
        [mc.T(["a"], ["2.5"])], [mc.T(["A"], ["2.5"])], [mc.T(["A", "B"], ["2.5"])], [mc.T(["A", "B", "a"], ["2.5"])],
        [mc.T(["A"]), mc.T(["A", "B"], ["3"], False)], [mc.T(["a"]), mc.T(["a", "A"]), mc.T(["b", "B"], ["2.5"])],
        [mc.T(["B", "A"])], [mc.T(["b", "a", "A"])], [mc.T(["{a+b}", "C(A)"], ["2.5"])],
        # several numeric literals in one term: the literal scale is their product
        [mc.T(["a"], ["2.5", "3"])], [mc.T(["A", "b"], ["2", "1.5"], False)], [mc.T(["a"]), mc.T(["a", "B"], ["3", "0.5"])], [mc.T(["A"], ["2", "4", "1.5"])],
    ]
    # hierarchical families - the shape of `f*g` and `f*g*h`, where a factor is first encoded for its own term and then again,
    # at another rank, for the interaction
    base = ["a", "b", "A", "B", "C(A)", "I(a*2)", "{a+b}", "C(A, contr.sum)", "C(B, contr.helmert)"]
    var_of = lambda f: "A" if f in ("A", "C(A)", "C(A, contr.sum)") else "B" if f in ("B", "C(B, contr.helmert)") else f
    hier = []
    for f, g in itertools.permutations(base, 2):
        if var_of(f) == var_of(g):
            continue
        hier.append([mc.T([f]), mc.T([g]), mc.T([f, g])])
    for f, g, h in [("a", "A", "B"), ("A", "B", "b"), ("B", "a", "b"), ("B", "C(A)", "{a+b}"), ("C(A, contr.sum)", "b", "C(B, contr.helmert)")]:
        hier.append([mc.T([f]), mc.T([g]), mc.T([h]), mc.T([f, g]), mc.T([f, h]), mc.T([g, h]), mc.T([f, g, h])])
    if not thorough:
        hier = [fam for k, fam in enumerate(hier) if k % 2 == 0 or len(fam) > 3]
    fams = core + hier + fams
    for fam in fams:
        for intercept in (True, False):
            for efr in (True, False):
                outs = ("pandas", "numpy") if (thorough or fam in core) else (("pandas",) if rng.random() < 0.5 else ("numpy",))
                for out in outs:
                    yield fam, intercept, efr, out


def run(check: Check) -> None:
    check.info["explanation"] = (
        "Engine SR: model_matrix(...) on the real PandasMaterializer with every numeric cell symbolic (columns a, b enter "
        "through `context` as object arrays of z3 reals; categoricals A(3 levels), B(2 levels) concrete, 7 rows covering every level "
        "combination). Per configuration one QF_NRA identity: every cell == literal scale x product of the label's pieces as read "
        "by an independent label parser; with ensure_full_rank=False also the exact expected list of labels (term by term, first factor fastest)."
    )
    check.info["rule"] = "configuration = (term family, intercept, ensure_full_rank, output); distinct = distinct (formula, options)"
    check.bounds.update({"rows": "7 (crossed), 1, 3 (B with one level)", "terms_per_formula": "<=3 (+ hierarchical f*g / f*g*h families of 3 / 7 terms)", "factors_per_term": "<=3", "levels": "A:3, B:2",
                         "literal_scalings": ["2.5", "3"], "outputs": ["pandas", "numpy"], "index_kinds": ["default", "permuted integers", "strings", "non-unique", "RangeIndex with an offset", "RangeIndex with a step"]})
    check.out_of_scope += ["sparse output, numeric data as DataFrame columns (Series branch of the encoders) and the narwhals materializer are NOT solver-decided: scipy/narwhals cannot hold symbolic cells; the same oracle is run natively at one generic point per configuration (group matrix.other_branches/ground)",
                           "contrasts other than treatment / sum / helmert (C11)", "more than 3 terms / 3 factors per term"]
    cases = []
    seen = set()
    for fam, intercept, efr, out in configs(check):
        formula = mc.render_formula(fam, intercept)
        ident = f"{formula} | efr={efr} | {out}"
        if ident in seen:
            continue
        seen.add(ident)
        cases.append(([[list(t.factors), list(t.lits), t.lit_first] for t in fam], intercept, efr, out))
    from lib.parallel import run_cases

    run_cases(check, cases, _case, record_first=20)


def _case(check: Check, case, record=False):
    famspec, intercept, efr, out = case
    fam = [mc.T(f, l, lf) for f, l, lf in famspec]
    tmo = 60000 if check.tier == "thorough" else 10000
    formula = mc.render_formula(fam, intercept)
    ident = f"{formula} | efr={efr} | {out}"
    # "any row count >= 1, any level sets": most configurations use the crossed 7-row layout, a stable slice of them a single row
    # or a factor with a single level
    layout = {0: "one-row", 1: "one-level-B"}.get(zlib.crc32(("L" + ident).encode()) % 6, "crossed7")
    n = len(mc.LAYOUTS[layout][0])
    # the index of the data frame is part of "all data": a stable function of the configuration picks one of four kinds
    index = ["default", "permuted", "string", "nonunique", "range-offset", "range-step"][zlib.crc32(ident.encode()) % 6]
    df = mc.layout_frame(layout, index=index)
    if True:
        def fn(formula=formula, efr=efr, out=out):
            a, b = sym_ab(n)
            with symbolic_pipeline():
                mm = model_matrix(formula, df, context={"a": a, "b": b}, ensure_full_rank=efr, output=out)
            return mm

        def claims(mm, fam=fam, formula=formula, efr=efr, out=out):
            labels, cells = mc.matrix_cells(mm, out)
            if out == "pandas":
                yield "pandas labels == spec.column_names", list(mm.columns) == labels
            w = mc.layout_world(layout, [z3.Real(f"a{i}") for i in range(n)], [z3.Real(f"b{i}") for i in range(n)], one=z3.RealVal(1), zero=z3.RealVal(0), two=z3.RealVal(2))
            yield "shape", bool(cells.shape == (n, len(labels)))
            conj = []
            for j, label in enumerate(labels):
                alts = []
                for sc in mc.term_scales_for_label(label, fam, w):
                    want = w.column(label, scale=None if sc is None else z3.RealVal(str(sc)))
                    alts.append(z3.And(*[lift(cells[i, j]) == want[i] for i in range(n)]))
                conj.append(z3.Or(*alts) if len(alts) > 1 else alts[0])
            yield "every cell == scale x product of the label's pieces", z3.And(*conj) if conj else True
            if not efr:
                exp = mc.expected_full_labels(mc.parsed_term_factors(formula), w)
                yield "ensure_full_rank=False: complete Kronecker label list in term order", labels == exp

        def rep(model, label, formula=formula, efr=efr, out=out, fam=fam):
            p = {"kind": "c02_matrix", "formula": formula, "efr": efr, "output": out, "index": index, "layout": layout,
                 "terms": [[list(t.factors), list(t.lits)] for t in fam]}
            generic = dict(p, a=[float(i) * 1.25 + 0.5 for i in range(n)], b=[(float(3 * i + 1) % 7) * 0.75 - 1.3 for i in range(n)])
            cands = [generic]
            if model is not None:
                cands.insert(0, dict(p, a=[model_value(model, z3.Real(f"a{i}")) for i in range(n)], b=[model_value(model, z3.Real(f"b{i}")) for i in range(n)]))
            for cand in cands:
                bad = replays.run(cand)
                if bad:
                    return (f"matrix(efr={efr})", bad, cand)
            return None

        # ground companion (NOT solver-decided): the same label oracle at one generic point through the branches symbolic cells
        # cannot reach - numeric data as DataFrame columns (Series branch of the encoders), sparse output, narwhals materializer
        if out == "pandas" and (check.tier != "thorough" or zlib.crc32(("G" + ident).encode()) % 24 == 0):  # (thorough has ~200 000 configurations: a 1-in-24 slice of them)
            base = {"kind": "c02_matrix", "formula": formula, "efr": efr, "layout": layout, "terms": [[list(t.factors), list(t.lits)] for t in fam],
                    "a": [float(i) * 1.25 + 0.5 for i in range(n)], "b": [(float(3 * i + 1) % 7) * 0.75 - 1.3 for i in range(n)]}
            other = "permuted" if index != "permuted" else "nonunique"
            ints = {"a": [float(3 * i - 4) for i in range(n)], "b": [float((5 * i + 2) % 7 - 3) for i in range(n)]}
            for extra in ({"output": "pandas", "index": other}, {"output": "numpy", "index": other}, {"output": "sparse", "index": index},
                          {"output": "pandas", "index": index, **ints, "dtypes": {"a": "int64", "b": "int32"}}, {"output": "sparse", **ints, "dtypes": {"a": "int16", "b": "int8"}},
                          {"output": "numpy", **ints, "dtypes": {"a": "float32", "b": "int64"}},
                          {"output": "numpy", "materializer": "narwhals"}, {"output": "sparse", "materializer": "narwhals"}):
                bad = replays.run({**base, **extra})
                check.obligation("matrix.other_branches/ground", "refuted" if bad else "ground")
                if bad:
                    cls = f"efr={efr},{extra}"
                    if extra.get("materializer") == "narwhals" and "C(" in formula and layout == "one-row":
                        cls = "narwhals materializer,C(),declared-but-unobserved levels"  # the input class of the finding recorded under C05
                    check.violation(f"matrix({cls})::{bad.split(':', 1)[0]}", bad, {**base, **extra})
        rig.run_sym(check, "matrix", fn, claims, replay=rep, timeout_ms=tmo, case_id=ident,
                    sample={"formula": formula, "ensure_full_rank": efr, "output": out, "index": index, "layout": layout, "data": "a,b symbolic in every row"},
                    record=record)
