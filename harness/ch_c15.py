"""C15 — lexing: whitespace-insensitive, quote-faithful, normalises Python code, spans delimit tokens (CrossHair harnesses)."""
import re

from formulaic.errors import FormulaSyntaxError
from formulaic.parser.algos.tokenize import tokenize

from harness import parser_common as pc

for _k, _v in (("__SHARD__", 0), ("__N__", 2), ("__J__", 0), ("__S__", 1), ("__C3LO__", 13), ("__C2LO__", 13), ("__K2LO__", 101)):
    globals().setdefault(_k, _v)


def _pick(x, lo, hi):
    for v in range(lo, hi):
        if x == v:
            return v
    return hi


SYMS = pc.SIGMA + ["[", "]", "x1", "f(a)", "{a+b}", "`a b`", "2.5"]  # 26 symbols
WORDLIKE = {"a", "b", "c", "0", "1", "2", ".", "x1", "2.5"}


_BAD = "`'" + '"' + "()[]{}" + chr(92)


def _toks(s):
    return [(t.token, t.kind.value if t.kind else None) for t in tokenize(s)]


def _norm_ops(toks):
    """Operator tokens merge across whitespace ('* *' is '**'): compare with whitespace removed inside operator tokens."""
    return [("".join(t.split()) if k == "operator" else t, k) for t, k in toks]


def ws_pair(i: int, j: int, w: str, lead: str, trail: str) -> bool:
    """
    pre: 0 <= i < 26 and 0 <= j < 26 and i == __SHARD__ and j == __J__
    pre: len(w) <= 1 and len(lead) <= 1 and len(trail) <= 1
    pre: (w == "" or w.isspace()) and (lead == "" or lead.isspace()) and (trail == "" or trail.isspace())
    post: _
    """
    t0, t1 = SYMS[__SHARD__], SYMS[__J__]
    if w == "" and (t0 in WORDLIKE or t0.startswith("f(") or t0.startswith("x")) and (t1 in WORDLIKE or t1[0].isalnum() or t1 in "(["):
        return True  # removing whitespace between two word-like tokens (or a word and an opening bracket = call) is not 'around an operator'
    canonical = _norm_ops(_safe(t0 + " " + t1))
    got = _norm_ops(_safe(lead + t0 + w + t1 + trail))
    return got == canonical


def _safe(s):
    try:
        return _toks(s)
    except FormulaSyntaxError as e:
        return [("<syntax error>", None)]


def ws_formula(k: int, w0: str, w1: str, w2: str, w3: str) -> bool:
    """
    pre: 0 <= k < 12 and k == __SHARD__
    pre: len(w0) <= 1 and len(w1) <= 1 and len(w2) <= __S__ and len(w3) <= __S__
    pre: all(w == "" or w.isspace() for w in (w0, w1, w2, w3))
    post: _
    """
    from formulaic.formula import Formula

    forms = [("a", "+", "b", ":", "c"), ("y", "~", "a", "*", "b"), ("(", "a", "+", "b", ")"), ("a", "|", "b", "-", "1"), ("a", "**", "2", "+", "c"),
             ("f(a)", "+", "{a+b}", ":", "c"), ("a", "%in%", "b", "+", "0"), ("-", "1", "+", "a", "/"), ("[", "a", "~", "b", "]"), ("`a b`", ":", "c", "^", "2"),
             ("a", "~", "-", "b", "+"), ("(", "(", "a", ")", ")")]
    t = forms[__SHARD__]
    s = t[0] + w0 + t[1] + w1 + t[2] + w2 + t[3] + w3 + t[4]
    c = " ".join(t)

    def parse(x):
        from formulaic.parser import DefaultFormulaParser

        try:
            return repr(Formula.from_spec(x, parser=DefaultFormulaParser(feature_flags={"all"})))
        except FormulaSyntaxError:
            return "<syntax error>"
        except Exception as e:
            return f"<{type(e).__name__} for {x!r}>"

    # whitespace between two adjacent word-like tokens cannot be removed; every other site may hold any whitespace or none
    for a, b, w in ((t[0], t[1], w0), (t[1], t[2], w1), (t[2], t[3], w2), (t[3], t[4], w3)):
        if w == "" and (a in WORDLIKE or a[-1].isalnum()) and (b in WORDLIKE or b[0].isalnum() or b in "(["):
            return True
    return parse(s) == parse(c)


# ---- quoting (CH-sym): any name / fragment is taken verbatim

def quote_name(n: str) -> bool:
    """
    pre: 1 <= len(n) <= __N__ and "`" not in n
    post: _
    """
    toks = _toks("`" + n + "`")
    if toks != [(n, "name")]:
        return False
    toks = _toks("a+`" + n + "`:b")
    return toks == [("a", "name"), ("+", "operator"), (n, "name"), (":", "operator"), ("b", "name")]


KNOWN_UNQUOTABLE = [".", "1"]  # recorded findings (known_findings.json); checked one by one in quote_name_known


NAME_CHARS = [chr(c) for c in range(32, 127) if chr(c) != "`"] + ["\t", "\n", "é", "　", "名", "\x00", "\x7f"]


def quote_name_factor(k: int) -> bool:
    """
    pre: 0 <= k < 101 and k % 4 == __SHARD__
    post: _
    """
    n = NAME_CHARS[_pick(k, 0, 100)]
    if n in KNOWN_UNQUOTABLE:
        return True
    return _name_is_factor(n)


def quote_name_known(i: int) -> bool:
    """
    pre: 0 <= i < 2 and i == __SHARD__
    post: _
    """
    return _name_is_factor(KNOWN_UNQUOTABLE[_pick(i, 0, 1)])


def quote_routes(k: int, r: int, pos: int) -> bool:
    """
    pre: 0 <= k < 101 and 0 <= r < 7 and 0 <= pos < 4 and k % 4 == __SHARD__ and r == __R__
    post: _
    """
    # Quoted text is verbatim for EVERY parser configuration and specification style: the parser that adds no
    # intercept (also used for the entries of list / dict specifications) locates and splits operators itself.
    from formulaic.formula import Formula
    from formulaic.parser import DefaultFormulaParser

    c = NAME_CHARS[_pick(k, 0, 100)]
    r, pos = _pick(r, 0, 6), _pick(pos, 0, 3)
    n = [c, c + "b", "a" + c, "a" + c + "b"][pos]
    if n in KNOWN_UNQUOTABLE:
        return True
    bare = DefaultFormulaParser(include_intercept=False)
    fx = lambda f: [[fa.expr for fa in t.factors] for t in f]
    q = "`" + n + "`"
    if r == 0:
        return fx(Formula.from_spec(q)) == [["1"], [n]]
    if r == 1:
        return fx(Formula.from_spec(q, parser=bare)) == [[n]]
    if r == 2:
        return fx(Formula.from_spec(["zz", q])) == [["zz"], [n]]
    if r == 3:
        f = Formula.from_spec("y ~ " + q + " + zz", parser=bare)
        return fx(f.lhs) == [["y"]] and fx(f.rhs) == [[n], ["zz"]]
    if r == 4:
        f = Formula.from_spec("y ~ zz | " + q, parser=bare)
        return fx(f.lhs) == [["y"]] and fx(f.rhs[0]) == [["zz"]] and fx(f.rhs[1]) == [[n]]
    if r == 5:
        f = Formula.from_spec({"u": q + ":zz", "v": "y ~ " + q})
        return fx(f.u) == [[n, "zz"]] and fx(f.v.lhs) == [["y"]] and fx(f.v.rhs) == [[n]]
    # a Python fragment holding the text as a string literal, and as a quoted name, in a list specification
    if "'" in n or chr(92) in n or "\n" in n or "\x00" in n:
        return True
    import ast

    t = fx(Formula.from_spec(["zz", "f('" + n + "', " + q + ")"]))
    if len(t) != 2 or t[0] != ["zz"] or len(t[1]) != 1:
        return False
    node = ast.parse(t[1][0].replace(q, "Q"), mode="eval").body if q in t[1][0] else None
    return node is not None and ast.literal_eval(node.args[0]) == n and isinstance(node.args[1], ast.Name)


def _name_is_factor(n: str) -> bool:
    from formulaic.formula import Formula

    f = Formula.from_spec("`" + n + "`")
    terms = [[fa.expr for fa in t.factors] for t in f]
    return terms == [["1"], [n]]


PY_WRAPPERS = ["abs({})", "{{{} + 1}}", "f({}, 'a', b.a)", "np.log({} + a.b)"]


def quote_in_python(k: int, k2: int, w: int) -> bool:
    """
    pre: 0 <= k < 101 and 0 <= k2 <= 101 and 0 <= w < 4 and k % 4 == __SHARD__ and k2 >= __K2LO__
    post: _
    """
    # a back-tick quoted name INSIDE a Python fragment is taken verbatim too - whatever else the fragment contains
    # (other identifiers containing the name, attribute accesses, string literals): the factor is the fragment as written
    k, k2, w = _pick(k, 0, 100), _pick(k2, 0, 101), _pick(w, 0, 3)
    n = NAME_CHARS[k] + (NAME_CHARS[k2] if k2 < 101 else "")
    from formulaic.formula import Formula

    src = PY_WRAPPERS[w].format("`" + n + "`")
    f = Formula.from_spec(src)
    terms = [[fa.expr for fa in t.factors] for t in f]
    want = src[1:-1] if src.startswith("{") else src
    # a quoted name that is a valid identifier denotes the same variable with or without its back-ticks
    bare = lambda e: re.sub(r"`([A-Za-z_][A-Za-z_0-9]*)`", lambda m: m.group(1), e)
    if not (len(terms) == 2 and terms[0] == ["1"] and len(terms[1]) == 1 and bare(terms[1][0]) == bare(want)):
        return False
    import ast

    try:  # ... and with its quoted names read as identifiers the factor is (still) Python
        ast.parse(re.sub(r"`[^`]*`", " _q ", terms[1][0]).strip(), mode="eval")
    except SyntaxError:
        return False
    return True


PAIR_NAMES = ["a b", "a-b", "a.b", "foo", "foo bar", "a", "a!", "a!b", "x y", "x_y", "1a", "_1a", "if", "b a"]


def quote_pairs(i: int, j: int, w: int) -> bool:
    """
    pre: 0 <= i < 14 and 0 <= j < 14 and 0 <= w < 3 and i == __SHARD__
    post: _
    """
    # TWO quoted names in one Python fragment: each stays itself (names whose sanitised forms coincide, a name that is a prefix
    # or a word of the other, a name that equals a plain identifier used next to it)
    i, j, w = _pick(i, 0, 13), _pick(j, 0, 13), _pick(w, 0, 2)
    a, b = "`" + PAIR_NAMES[i] + "`", "`" + PAIR_NAMES[j] + "`"
    src = ["I({} + {})", "f({}, {}, x_y)", "{{{} * 2 - {}}}"][w].format(a, b)
    from formulaic.formula import Formula

    f = Formula.from_spec(src)
    terms = [[fa.expr for fa in t.factors] for t in f]
    want = src[1:-1] if src.startswith("{") else src
    bare = lambda e: re.sub(r"`([A-Za-z_][A-Za-z_0-9]*)`", lambda m: m.group(1), e)
    if not (len(terms) == 2 and terms[0] == ["1"] and len(terms[1]) == 1 and bare(terms[1][0]) == bare(want)):
        return False
    need = {PAIR_NAMES[i], PAIR_NAMES[j]} | ({"x_y"} if w == 1 else set())
    return {str(v) for v in f.required_variables} == need


def quote_python(c: str) -> bool:
    """
    pre: 1 <= len(c) <= __N__
    pre: all(ch not in _BAD for ch in c)
    post: _
    """
    toks = [(t.token, t.kind.value) for t in tokenize("{" + c + "}")]
    if toks != [(c, "python")]:
        return False
    toks = [(t.token, t.kind.value) for t in tokenize("f(" + c + ")+a")]
    return toks == [("f(" + c + ")", "python"), ("+", "operator"), ("a", "name")]


PYSTR = ["f(')')", "f('(')", "{'`'}", 'f("a)b", c)', "{d['k)']}", "f('[', g(']'))", "f(`a(`)", "{`k[` + 1}", "I( `a(` )", "f('{') + g('}')", 'f("it\'s)")', "f(`a)`, ')')"]


def pystr(i: int, pos: int) -> bool:
    """
    pre: 0 <= i < 12 and 0 <= pos < 3
    post: _
    """
    i, pos = _pick(i, 0, 11), _pick(pos, 0, 2)
    frag = PYSTR[i]
    parts = frag.split(" + ") if i == 9 else [frag]
    s = ["{}", "a + {}", "{} : b"][pos].format(" + ".join(parts))
    toks = [(t.token, t.kind.value) for t in tokenize(s)]
    want = []
    if pos == 1:
        want += [("a", "name"), ("+", "operator")]
    for k, prt in enumerate(parts):
        if k:
            want.append(("+", "operator"))
        want.append((prt[1:-1] if prt.startswith("{") else prt, "python"))
    if pos == 2:
        want += [(":", "operator"), ("b", "name")]
    return toks == want


# ---- spans (CH-sym over all of Unicode)

def spans(s: str) -> bool:
    """
    pre: len(s) <= __N__
    post: _
    """
    try:
        toks = list(tokenize(s))
    except FormulaSyntaxError:
        return True
    prev_end = -1
    for t in toks:
        if t.source_start is None or t.source_end is None:
            return False
        if not (0 <= t.source_start <= t.source_end < len(s)):
            return False
        if t.source_start <= prev_end:
            return False
        prev_end = t.source_end
        seg = s[t.source_start : t.source_end + 1]
        kind = t.kind.value
        if seg[0] in "`{%" and kind in ("name", "python", "operator") and (seg[0] != "%" or kind == "operator") and t.token != seg:
            seg = seg[1:]  # the span starts at the opening delimiter of a quoted token
        if kind == "operator":
            seg = "".join(ch for ch in seg if not ch.isspace())  # operators merge across whitespace
            if "".join(ch for ch in t.token if not ch.isspace()) != seg:
                return False
        elif t.token != seg:
            return False
    return True


# ---- Python normalisation (CH-enum)

LIT_ALPHABET = [" ", "x", "\t", "#", "(", "`", "{", "]", ")", "~", "+", "'", '"']  # 13 characters


def pylit(q: int, c0: int, c1: int, c2: int, c3: int, wrap: int) -> bool:
    """
    pre: 0 <= q < 2 and 0 <= c0 <= 13 and 0 <= c1 <= 13 and 0 <= c2 <= 13 and 0 <= c3 <= 13 and 0 <= wrap < 2 and c0 == __SHARD__ and c2 >= __C2LO__ and c3 >= __C3LO__
    post: _
    """
    # String literals inside Python fragments are content, not formatting: whatever the normaliser does to the code, the
    # literal the evaluated code receives is the literal that was written.  Index 13 = "no character at this position".
    q, wrap = _pick(q, 0, 1), _pick(wrap, 0, 1)
    cs = [_pick(c, 0, 13) for c in (c0, c1, c2, c3)]
    text = "".join(LIT_ALPHABET[c] for c in cs if c < 13)
    quote = "'\""[q]
    if quote in text:
        return True
    src = ["f(" + quote + text + quote + ")", "{d[" + quote + text + quote + "]}"][wrap]
    import ast

    from formulaic.formula import Formula

    f = Formula.from_spec(src)
    terms = [t for t in f if repr(t) != "1"]
    if len(terms) != 1 or len(terms[0].factors) != 1:
        return False
    node = ast.parse(list(terms[0].factors)[0].expr, mode="eval").body
    lit = node.args[0] if wrap == 0 else node.slice
    return ast.literal_eval(lit) == text


FRAGMENTS = [
    ("f(a,b)", ["f( a , b )", "f(a,  b)", "f(a ,b)"]),
    ("{a+b}", ["{ a + b }", "{ a+b}", "{a+ b }"]),
    ("f('x')", ['f("x")', "f( 'x' )"]),
    ("g(a)[0]", ["g( a )[ 0 ]", "g(a)[0 ]"]),
    ("f(a, k=1)", ["f(a,k=1)", "f(a, k = 1)"]),
    ("{a**2}", ["{a ** 2}", "{ a**2 }", "{\ta**2}"]),
    ("np.log(a)", ["np.log( a )", "np.log(a )"]),
    ("f(`a b`)", ["f( `a b` )", "f(`a b` )"]),
    ("I(a*2)", ["I(a * 2)", "I( a*2 )"]),
    ("f((a,b))", ["f( (a, b) )", "f((a , b))"]),
]


def pynorm(i: int, j: int, ctx: int) -> bool:
    """
    pre: 0 <= i < 10 and 0 <= j < 3 and 0 <= ctx < 3 and i == __SHARD__
    post: _
    """
    from formulaic.formula import Formula

    i, j, ctx = _pick(i, 0, 9), _pick(j, 0, 2), _pick(ctx, 0, 2)
    base, variants = FRAGMENTS[i]
    if j >= len(variants):
        return True
    wrap = ["{}", "b + {}:c", "y ~ {} - 1"][ctx]
    try:
        fa = Formula.from_spec(wrap.format(base))
        fb = Formula.from_spec(wrap.format(variants[j]))
        if repr(fa) != repr(fb):
            return False
        # set semantics recognise the two spellings as the same factor
        both = Formula.from_spec("{} + {}".format(base, variants[j]))
        return len(list(both)) == 2  # intercept + one term
    except Exception:
        return False


def explain(fname, call):
    a = call["args"] if call else []
    kw = call["kwargs"] if call else {}
    try:
        if fname == "ws_pair":
            i, j, w, lead, trail = (a + [None] * 5)[:5] if a else (kw.get("i"), kw.get("j"), kw.get("w"), kw.get("lead"), kw.get("trail"))
            return f"whitespace: tokens of {lead + SYMS[i] + w + SYMS[j] + trail!r} differ from those of {SYMS[i] + ' ' + SYMS[j]!r}"
        if fname == "quote_routes":
            n = [NAME_CHARS[a[0]], NAME_CHARS[a[0]] + "b", "a" + NAME_CHARS[a[0]], "a" + NAME_CHARS[a[0]] + "b"][a[2]]
            route = ["default parser", "parser without intercept", "list specification", "two-sided, parser without intercept", "multi-part, parser without intercept",
                     "dict specification", "Python fragment in a list specification"][a[1]]
            return f"quoting-routes: back-tick name {n!r} is not taken verbatim by: {route}"
        if fname == "quote_name_factor":
            return f"quoting: back-tick name {NAME_CHARS[a[0]]!r} is not taken verbatim"
        if fname == "quote_name":
            return f"quoting: back-tick name {a[0]!r} is not taken verbatim"
        if fname == "quote_name_known":
            return f"quoting: back-tick name {KNOWN_UNQUOTABLE[a[0]]!r} is not taken verbatim"
        if fname == "quote_python":
            return f"quoting: python fragment {a[0]!r} is not taken verbatim"
        if fname == "spans":
            return f"spans: tokens of {a[0]!r}: {[(t.token, t.kind.value, t.source_start, t.source_end) for t in tokenize(a[0])]}"
        if fname == "pystr":
            return f"quoting: python fragment {PYSTR[a[0]]!r} (strings / quoted names containing brackets) is not taken verbatim"
        if fname == "quote_in_python":
            n = NAME_CHARS[a[0]] + (NAME_CHARS[a[1]] if a[1] < 101 else "")
            return f"quoting-in-python: the fragment {PY_WRAPPERS[a[2]].format('`' + n + '`')!r} is not taken as written"
        if fname == "quote_pairs":
            src = ["I({} + {})", "f({}, {}, x_y)", "{{{} * 2 - {}}}"][a[2]].format("`" + PAIR_NAMES[a[0]] + "`", "`" + PAIR_NAMES[a[1]] + "`")
            return f"quoting-in-python: in the fragment {src!r} the two quoted names do not both stay themselves"
        if fname == "pylit":
            text = "".join(LIT_ALPHABET[c] for c in a[1:5] if c < 13)
            return f"string-literal-changed: the literal {text!r} written inside a Python fragment ({['call', 'brace-quoted subscript'][a[5]]}) is not the literal the factor evaluates"
        if fname == "pynorm":
            return f"python-normalisation: {FRAGMENTS[a[0]][0]!r} vs {FRAGMENTS[a[0]][1][a[1]]!r}"
    except Exception as e:
        return f"{fname}{a}: {type(e).__name__}: {e}"
    return f"{fname} fails for {a} {kw}"


# ---- native companion (ground): random whitespace at the token boundaries of grammar-derived formulas

def ws_random_cases(seed: int, n: int):
    """[(canonical string, respaced string)]: whitespace of random kind and length at every boundary where at least one side is an operator
    or a bracket (between two word-like tokens, or two operator characters, the single space is kept: those would merge)."""
    import random

    rng = random.Random(seed)
    extra = ["f(a, b)", "{a + b}", "`a b`", "np.log(a)", "2.5", "x1"]
    opchars = set("+-*/:^~|%")
    out = []
    for syms in pc.random_streams(seed + 11, n)[::2]:  # the well-formed half
        syms = [rng.choice(extra) if (t in ("a", "b", "c") and rng.random() < 0.2) else t for t in syms]
        parts = [syms[0]]
        for prev, cur in zip(syms, syms[1:]):
            wordlike = lambda t: t[0].isalnum() or t[0] in "`{._" or t.endswith(")") and "(" in t
            merge = (wordlike(prev) and (wordlike(cur) or cur in "([")) or (prev[-1] in opchars and cur[0] in opchars)
            parts.append(" " if merge else rng.choice(["", "", " ", "  ", "\t", "\n", " \t ", "\u00a0" if False else " "]))
            parts.append(cur)
        lead, trail = rng.choice(["", " ", "\n"]), rng.choice(["", " ", "\t\n"])
        out.append((" ".join(syms), lead + "".join(parts) + trail))
    return out


def ws_random_check(canon: str, spaced: str):
    """None if both spellings lex to the same tokens and parse to the same formula (or are rejected alike), else a message."""
    from formulaic.formula import Formula

    a, b = _norm_ops(_safe(canon)), _norm_ops(_safe(spaced))
    if a != b:
        return f"whitespace-changes-tokens: {canon!r} lexes to {a}, {spaced!r} to {b}"

    def parse(s):
        try:
            return repr(Formula.from_spec(s))
        except Exception as e:
            return f"<{type(e).__name__}>"

    fa, fb = parse(canon), parse(spaced)
    if fa != fb:
        return f"whitespace-changes-formula: {canon!r} gives {fa}, {spaced!r} gives {fb}"
    return None
