"""C13 — scale / center / standardize / poly / elementwise built-ins (Engine SR)."""

from __future__ import annotations

import itertools
import sys

import numpy
import z3

import formulaic.transforms  # noqa: F401  (imports the submodules)
from formulaic.transforms import TRANSFORMS
from lib.common import Check
from sr import rig
from sr.npproxy import patched_numpy
from sr.symreal import SReal, lift, model_value, sym_vector, uf_decl, as_sym_array

from . import replays

POLY_MOD = "formulaic.transforms.poly"


def _floats(model, stem, n):
    return [model_value(model, z3.Real(f"{stem}{i}")) for i in range(n)]


def run(check: Check) -> None:
    thorough = check.tier == "thorough"
    scale = TRANSFORMS["scale"]
    center = TRANSFORMS["center"]
    standardize = TRANSFORMS["standardize"]
    poly = TRANSFORMS["poly"]
    tmo = 120000 if thorough else 10000

    check.info["explanation"] = (
        "Engine SR: the real formulaic.transforms.scale/center/standardize/poly and the TRANSFORMS lambdas are "
        "executed on numpy object arrays whose cells are z3 real terms; every obligation is an unsat query "
        "(QF_NRA, UF for the transcendental symbols) closed over all real inputs / all recorded states."
    )
    check.info["rule"] = "one case per (transform, flags, n/degree); non-trivial = reached at least one obligation"
    check.bounds.update(
        {
            "scale_fit_n": "2..6" if thorough else "2..4",
            "poly_fit": "n=3 degree<=2" + ("; n=4 degree<=2, n=5 degree 1 (120 s cap; n=4 degree 3 and n=5 degree 2 were tried and do not decide)" if thorough else ""),
            "poly_replay_degree": 3,
            "replay_rows": 2,
        }
    )
    check.out_of_scope += [
        "floating-point rounding (claims are over the reals)",
        "scale fit for n > 6, poly fit for n > 4",
        "transcendental identities beyond which numpy function is bound (UF symbols + inverse-pair axioms)",
        "2-D inputs to scale()",
    ]
    check.assumptions += [
        "division side conditions: variance != 0, norms != 0 (reported as domain obligations)",
        "LOG/EXP/... are uninterpreted; inverse-pair axiom instantiated at the argument",
    ]

    # ---------------------------------------------------------------- scale: fit
    ns = range(2, 7) if thorough else range(2, 5)
    for n, c, s, d in itertools.product(ns, (True, False), (True, False), (0, 1)):
        if not c and not s:
            continue
        if n - d <= 0:
            continue

        def fn(n=n, c=c, s=s, d=d):
            x = sym_vector("x", n)
            st: dict = {}
            out = scale(x, center=c, scale=s, ddof=d, _state=st)
            return x, out, st

        def claims(res, n=n, c=c, s=s, d=d):
            x, out, st = res
            o = [lift(v) for v in out]
            if c:
                yield "sum(out)==0", sum(o) == 0
                yield "state.center==mean", lift(st["center"]) * n == sum(lift(v) for v in x)
            else:
                yield "state.center is None", st["center"] is None
            if s:
                yield "sum(out^2)==n-ddof", sum(v * v for v in o) == n - d
            else:
                yield "state.scale is None", st["scale"] is None
                yield "out==x-mean", z3.And(*[o[i] == lift(x[i]) - lift(st["center"]) for i in range(n)])
            yield "state.ddof recorded", st["ddof"] == d

        def rep(model, label, n=n, c=c, s=s, d=d):
            xs = _floats(model, "x", n)
            p = {"kind": "c13_scale_fit", "x": xs, "center": c, "scale": s, "ddof": d}
            bad = replays.run(p)
            return (f"scale_fit(center={c},scale={s},ddof={d})", bad, p) if bad else None

        rig.run_sym(check, "scale.fit", fn, claims, replay=rep, timeout_ms=tmo, case_id=f"scale n={n} c={c} s={s} ddof={d}",
                    sample=f"scale(x in R^{n}, center={c}, scale={s}, ddof={d})")

    # center() and standardize() wrappers
    for n in (2, 3):
        def fn(n=n):
            x = sym_vector("x", n)
            st: dict = {}
            return x, center(x, _state=st), st

        def claims(res, n=n):
            x, out, st = res
            yield "center: sum(out)==0", sum(lift(v) for v in out) == 0
            yield "center: out==x-mean", z3.And(*[lift(out[i]) * n == lift(x[i]) * n - sum(lift(v) for v in x) for i in range(n)])

        def rep(model, label, n=n):
            p = {"kind": "c13_center_fit", "x": _floats(model, "x", n)}
            bad = replays.run(p)
            return ("center_fit", bad, p) if bad else None

        rig.run_sym(check, "center.fit", fn, claims, replay=rep, timeout_ms=tmo, case_id=f"center n={n}")

        def fn2(n=n):
            x = sym_vector("x", n)
            st: dict = {}
            return x, standardize(x, _state=st), st

        def claims2(res, n=n):
            x, out, st = res
            o = [lift(v) for v in out]
            yield "standardize: mean 0", sum(o) == 0
            yield "standardize: population variance 1 (ddof=0)", sum(v * v for v in o) == n

        def rep2(model, label, n=n):
            p = {"kind": "c13_standardize_fit", "x": _floats(model, "x", n)}
            bad = replays.run(p)
            return ("standardize_fit", bad, p) if bad else None

        rig.run_sym(check, "standardize.fit", fn2, claims2, replay=rep2, timeout_ms=tmo, case_id=f"standardize n={n}")

    # ---------------------------------------------------------------- scale: replay of a recorded state (all states)
    for has_c, has_s, flags in itertools.product((True, False), (True, False), ((True, True), (False, False))):
        def fn(has_c=has_c, has_s=has_s, flags=flags):
            C = SReal.var("C") if has_c else None
            S = SReal.var("S") if has_s else None
            st = {"ddof": 1, "center": C, "scale": S}
            y = sym_vector("y", 2)
            out = scale(y, center=flags[0], scale=flags[1], ddof=0, _state=st)
            out1 = scale(as_sym_array([y[1]]), center=flags[0], scale=flags[1], ddof=0, _state=st)
            return y, out, out1, st, C, S

        def claims(res, has_c=has_c, has_s=has_s):
            y, out, out1, st, C, S = res
            for i in range(2):
                e = lift(y[i])
                if has_c:
                    e = e - lift(C)
                if has_s:
                    e = e / lift(S)
                yield f"row {i} == (y-C)/S", lift(out[i]) == e
            yield "row independent of other rows", lift(out1[0]) == lift(out[1])
            yield "state untouched", bool(st["center"] is C and st["scale"] is S and st["ddof"] == 1 and set(st) == {"ddof", "center", "scale"})

        def rep(model, label, has_c=has_c, has_s=has_s, flags=flags):
            p = {"kind": "c13_scale_state", "y": _floats(model, "y", 2),
                 "C": model_value(model, z3.Real("C")) if has_c else None,
                 "S": model_value(model, z3.Real("S")) if has_s else None, "flags": list(flags)}
            bad = replays.run(p)
            return (f"scale_state(center={has_c},scale={has_s},flags={flags})", bad, p) if bad else None

        rig.run_sym(check, "scale.replay", fn, claims, replay=rep, timeout_ms=tmo,
                    case_id=f"scale-state c={has_c} s={has_s} flags={flags}", sample="scale(y, _state={center:C, scale:S}) for all C,S,y")

    # ---------------------------------------------------------------- poly
    with patched_numpy(POLY_MOD):
        fits = [(3, 1), (3, 2)] + ([(4, 1), (4, 2), (5, 1)] if thorough else [])  # (4, 3) and (5, 2) do not decide within the 120 s cap (z3 nlsat)
        for n, deg in fits:
            def fn(n=n, deg=deg):
                x = sym_vector("x", n)
                st: dict = {}
                out = poly(x, degree=deg, _state=st)
                return x, numpy.asarray(out), st

            def claims(res, n=n, deg=deg):
                x, out, st = res
                cols = [[lift(out[i, j]) for i in range(n)] for j in range(deg)]
                for j in range(deg):
                    yield f"col{j+1} orthogonal to 1", sum(cols[j]) == 0
                    for k in range(j, deg):
                        yield f"<col{j+1},col{k+1}>", sum(a * b for a, b in zip(cols[j], cols[k])) == (1 if j == k else 0)
                yield "state recorded", bool(set(st) == {"alpha", "norms2"})

            def rep(model, label, n=n, deg=deg):
                p = {"kind": "c13_poly_fit", "x": _floats(model, "x", n), "degree": deg}
                bad = replays.run(p)
                return (f"poly_fit(degree={deg})", bad, p) if bad else None

            # the contract is stated for data with more distinct points than the degree; with n = 3, 4 rows: pairwise distinct
            pre_fit = [z3.Real(f"x{i}") != z3.Real(f"x{j}") for i in range(n) for j in range(i + 1, n)]
            rig.run_sym(check, "poly.fit", fn, claims, pre=pre_fit, replay=rep, timeout_ms=tmo, case_id=f"poly fit n={n} deg={deg}",
                        sample=f"poly(x in R^{n}, degree={deg}) orthonormal and orthogonal to the constant")

        # replay from an arbitrary recorded state: the three-term recurrence, row by row
        for deg in (1, 2, 3):
            def fn(deg=deg):
                alpha = {k: SReal.var(f"al{k}") for k in range(deg)}
                norms2 = {k: SReal.var(f"nm{k}") for k in range(deg + 1)}
                st = {"alpha": alpha, "norms2": norms2}
                keep = (dict(alpha), dict(norms2))
                y = sym_vector("y", 2)
                out = numpy.asarray(poly(y, degree=deg, _state=st))
                out1 = numpy.asarray(poly(as_sym_array([y[1]]), degree=deg, _state=st))
                return y, out, out1, st, keep

            def pre_state(deg=deg):
                return [z3.Real(f"nm{k}") > 0 for k in range(deg + 1)]

            def claims(res, deg=deg):
                y, out, out1, st, keep = res
                al = [z3.Real(f"al{k}") for k in range(deg)]
                nm = [z3.Real(f"nm{k}") for k in range(deg + 1)]
                for i in range(2):
                    yi = lift(y[i])
                    p = [z3.RealVal(1), yi - al[0]]
                    for k in range(2, deg + 1):
                        p.append((yi - al[k - 1]) * p[k - 1] - (nm[k - 1] / nm[k - 2]) * p[k - 2])
                    for j in range(1, deg + 1):
                        o = lift(out[i, j - 1])
                        yield f"row{i} col{j}: out^2*norm2 == p_j^2 and same sign", z3.And(o * o * nm[j] == p[j] * p[j], o * p[j] >= 0)
                for j in range(deg):
                    yield f"col{j+1}: single-row call equals row 1", lift(out1[0, j]) == lift(out[1, j])
                yield "state untouched", bool(
                    set(st) == {"alpha", "norms2"}
                    and all(st["alpha"][k] is keep[0][k] for k in keep[0]) and set(st["alpha"]) == set(keep[0])
                    and all(st["norms2"][k] is keep[1][k] for k in keep[1]) and set(st["norms2"]) == set(keep[1])
                )

            def rep(model, label, deg=deg):
                p = {"kind": "c13_poly_state", "y": _floats(model, "y", 2), "degree": deg,
                     "alpha": [model_value(model, z3.Real(f"al{k}")) for k in range(deg)],
                     "norms2": [model_value(model, z3.Real(f"nm{k}")) for k in range(deg + 1)]}
                bad = replays.run(p)
                return (f"poly_state(degree={deg})", bad, p) if bad else None

            rig.run_sym(check, "poly.replay", fn, claims, pre=pre_state(), replay=rep, timeout_ms=tmo,
                        case_id=f"poly replay deg={deg}", sample=f"poly(y, degree={deg}, _state=arbitrary alpha, norms2>0) == three-term recurrence")

        # missing values propagate row-wise, the remaining rows are the fit on the non-null subvector
        for pos in (0, 1, 3):
            def fn(pos=pos):
                xs = [SReal.var(f"x{i}") for i in range(3)]
                full = list(xs)
                full.insert(pos, float("nan"))
                a = numpy.empty(4, dtype=object)
                for i, v in enumerate(full):
                    a[i] = v
                st: dict = {}
                out = numpy.asarray(poly(a, degree=2, _state=st))
                st2: dict = {}
                ref = numpy.asarray(poly(as_sym_array(xs), degree=2, _state=st2))
                return out, ref

            def claims(res, pos=pos):
                out, ref = res
                yield "NaN row in -> NaN row out", bool(all(isinstance(out[pos, j], float) and numpy.isnan(out[pos, j]) for j in range(2)))
                rows = [i for i in range(4) if i != pos]
                for r, i in enumerate(rows):
                    for j in range(2):
                        yield f"row {i} col {j+1} == fit on non-null subvector", lift(out[i, j]) == lift(ref[r, j])

            def rep(model, label, pos=pos):
                p = {"kind": "c13_poly_nan", "x": _floats(model, "x", 3), "pos": pos}
                bad = replays.run(p)
                return (f"poly_nan(pos={pos})", bad, p) if bad else None

            rig.run_sym(check, "poly.nan", fn, claims, replay=rep, timeout_ms=tmo, case_id=f"poly nan pos={pos}")

        # raw=True: plain powers
        def fn():
            x = sym_vector("x", 2)
            return x, numpy.asarray(poly(x, degree=3, raw=True))

        def claims(res):
            x, out = res
            for i in range(2):
                for k in range(1, 4):
                    yield f"raw power {k}", lift(out[i, k - 1]) == lift(x[i]) ** k

        rig.run_sym(check, "poly.raw", fn, claims, timeout_ms=tmo, case_id="poly raw",
                    replay=lambda m, l: (("poly_raw", replays.run({"kind": "c13_poly_raw", "x": _floats(m, "x", 2)}), {"kind": "c13_poly_raw", "x": _floats(m, "x", 2)}) if replays.run({"kind": "c13_poly_raw", "x": _floats(m, "x", 2)}) else None))

    # ---------------------------------------------------------------- the same transforms as formulas are evaluated: by NAME, through
    # stateful_eval (state is threaded into a call only if the callable is marked stateful), and replayed by the spec
    import pandas

    from formulaic import model_matrix
    from sr.pipeline import symbolic_pipeline
    from sr.symreal import same_cell

    for call in ("scale(a)", "center(a)", "standardize(a)", "standardize(a, ddof=1)", "standardize(a, rescale=False)", "scale(a, center=False)",
                 "poly(a, 2)", "scale(center(a))", "{standardize(a) * 2}"):
        def fn(call=call):
            a, y = sym_vector("a", 3), sym_vector("y", 1)
            with symbolic_pipeline():
                mm = model_matrix(f"0 + {call}", pandas.DataFrame(index=range(3)), context={"a": a}, output="numpy")
                spec = mm.model_spec
                mixed = spec.get_model_matrix(pandas.DataFrame(index=range(2)), context={"a": as_sym_array([a[1], y[0]])})
                alone = spec.get_model_matrix(pandas.DataFrame(index=range(1)), context={"a": as_sym_array([y[0]])})
            return numpy.asarray(mm, dtype=object).reshape((3, -1)), numpy.asarray(mixed, dtype=object).reshape((2, -1)), numpy.asarray(alone, dtype=object).reshape((1, -1)), spec

        def claims(res, call=call):
            mm, mixed, alone, spec = res
            yield "state recorded under the call", bool(len(spec.transform_state) >= 1)
            k = mm.shape[1]
            yield "a training row replays to its recorded encoding", z3.And(*[same_cell(mixed[0, j], mm[1, j]) for j in range(k)])
            yield "a fresh row is encoded independently of its companions (recorded statistics, not re-fitted)", z3.And(*[same_cell(mixed[1, j], alone[0, j]) for j in range(k)])

        def rep(model, label, call=call):
            p = {"kind": "c13_formula_state", "call": call, "a": _floats(model, "a", 3), "y": _floats(model, "y", 1)}
            for cand in (p, dict(p, a=[0.5, 2.0, 4.25], y=[7.0])):
                bad = replays.run(cand)
                if bad:
                    return (f"formula_state({call})", bad, cand)
            return None

        pre_d = [z3.Real(f"a{i}") != z3.Real(f"a{j}") for i in range(3) for j in range(i + 1, 3)]
        rig.run_sym(check, "formula.state", fn, claims, pre=pre_d, replay=rep, timeout_ms=tmo, case_id=f"formula state {call}",
                    sample=f"model_matrix('0 + {call}') then spec replay: a training row and a fresh row")

    # two stateful calls on DISTINCT quoted names whose sanitised forms coincide (`x 1`, `x-1` -> x_1): each keeps its own statistics
    def fn_pair():
        u, v = sym_vector("u", 3), sym_vector("v", 3)
        with symbolic_pipeline():
            mm = model_matrix("0 + scale(`x 1`) + scale(`x-1`) + center(`x-1`)", pandas.DataFrame(index=range(3)), context={"x 1": u, "x-1": v}, output="numpy")
        return numpy.asarray(mm, dtype=object).reshape((3, -1)), mm.model_spec

    def claims_pair(res):
        m, spec = res
        yield "three columns, three recorded states", bool(m.shape == (3, 3) and len(spec.transform_state) == 3)
        for j, nm in ((0, "scale(`x 1`)"), (1, "scale(`x-1`)")):
            col = [lift(m[i, j]) for i in range(3)]
            yield f"{nm}: zero mean on its own data", sum(col) == 0
            yield f"{nm}: unit deviation on its own data", sum(c * c for c in col) == 2
        V = [z3.Real(f"v{i}") for i in range(3)]
        yield "center(`x-1`) == v - mean(v)", z3.And(*[lift(m[i, 2]) == V[i] - sum(V) / 3 for i in range(3)])

    def rep_pair(model, label):
        p = {"kind": "c13_quoted_pair", "u": _floats(model, "u", 3), "v": _floats(model, "v", 3)}
        for cand in (p, dict(p, u=[1.0, 2.0, 4.5], v=[10.0, 30.0, 20.0])):
            bad = replays.run(cand)
            if bad:
                return ("formula_state(quoted look-alikes)", bad, cand)
        return None

    pre_pair = [z3.Real(f"{n}{i}") != z3.Real(f"{n}{j}") for n in "uv" for i in range(3) for j in range(i + 1, 3)]
    rig.run_sym(check, "formula.state", fn_pair, claims_pair, pre=pre_pair, replay=rep_pair, timeout_ms=tmo, case_id="formula state quoted look-alikes",
                sample="scale(`x 1`) + scale(`x-1`): distinct columns whose sanitised names coincide")

    # ---------------------------------------------------------------- floating point (ground; a real-valued term cannot see rounding):
    # "any magnitude" includes data whose common offset dwarfs its spread, and tiny / huge spreads
    for name, vec in (("offset 1e8", [1e8 + k for k in range(5)]), ("offset 3e9, spread 0.5", [3e9 + 0.5 * k for k in range(6)]), ("offset 1.7e9 (epoch seconds)", [1.7e9 + 3.0 * k * k for k in range(10)]),
                      ("offset -4e7", [-4e7 + 2.5 * k for k in range(7)]), ("spread 1e-6", [1.0 + 1e-6 * k for k in range(5)]), ("magnitude 1e12", [1e12 * (k + 1) for k in range(5)]), ("magnitude 1e-9", [1e-9 * (k * k + 1) for k in range(6)])):
        for ddof in (1, 0):
            p = {"kind": "c13_scale_float", "x": vec, "ddof": ddof}
            bad = replays.run(p)
            check.case(f"scale float {name} ddof={ddof}")
            check.obligation("scale.float/ground", "refuted" if bad else "ground")
            if bad:
                check.violation(f"scale_float(ddof={ddof})::{bad.split(':', 1)[0]}", bad, p)
    # the same contract for vectors that arrive in another numeric dtype (integers of any magnitude, float32, booleans; float16 is left out: its own rounding exceeds the tolerance)
    for name, vec, dt in (("int64 nanosecond epochs", [1_700_000_000_000_000_000 + 86_400_000_000_000 * k * k for k in range(8)], "int64"), ("uint64 above 2**63", [2 ** 63 + 2 ** 42 * k * k for k in range(6)], "uint64"),
                          ("int32 near the top", [2_000_000_000 + 7 * k * k for k in range(9)], "int32"), ("int8", [100, 120, 90, 127, -128, 5], "int8"), ("uint8", [200, 250, 255, 0, 17, 240], "uint8"),
                          ("float32 offset", [16_000_000.0 + 2 * k for k in range(6)], "float32"), ("bool", [1, 0, 0, 1, 1, 1, 0], "bool")):
        for ddof in (1, 0):
            p = {"kind": "c13_scale_float", "x": vec, "ddof": ddof, "dtype": dt}
            bad = replays.run(p)
            check.case(f"scale dtype {name} ddof={ddof}")
            check.obligation("scale.dtype/ground", "refuted" if bad else "ground")
            if bad:
                check.violation(f"scale_dtype({dt},ddof={ddof})::{bad.split(':', 1)[0]}", bad, p)

    for name, vec in (("offset 1e8", [1e8 + k * k for k in range(7)]), ("magnitude 1e-7", [1e-7 * (k + 0.5) ** 2 for k in range(7)]), ("magnitude 1e11", [1e11 * (k + 1) for k in range(7)]),
                      ("offset -3e9", [-3e9 + 0.25 * k * (k + 1) for k in range(8)])):
        for deg in (1, 2, 3):
            p = {"kind": "c13_poly_float", "x": vec, "degree": deg}
            bad = replays.run(p)
            check.case(f"poly float {name} degree={deg}")
            check.obligation("poly.float/ground", "refuted" if bad else "ground")
            if bad:
                check.violation(f"poly_float(degree={deg})::{bad.split(':', 1)[0]}", bad, p)

    # ---------------------------------------------------------------- elementwise built-ins
    expected = {"log": "LOG", "log2": "LOG2", "log10": "LOG10", "exp": "EXP", "exp2": "EXP2", "exp10": "POW10"}
    for name, sym in expected.items():
        def fn(name=name):
            x = sym_vector("x", 1)
            return x, TRANSFORMS[name](x)

        def claims(res, sym=sym, name=name):
            x, out = res
            yield f"{name}(x) is exactly one application of {sym}", lift(out[0]) == uf_decl(sym)(lift(x[0]))

        def rep(model, label, name=name):
            p = {"kind": "c13_elementwise", "name": name, "x": model_value(model, z3.Real("x0"))}
            bad = replays.run(p)
            return (f"elementwise:{name}", bad, p) if bad else None

        rig.run_sym(check, "elementwise", fn, claims, replay=rep, logic=None, timeout_ms=tmo, case_id=f"elementwise {name}",
                    sample=f"TRANSFORMS['{name}'](x) == {sym}(x) for all x")

    pairs = [("log", "exp", "LOG", "EXP"), ("log2", "exp2", "LOG2", "EXP2"), ("log10", "exp10", "LOG10", "POW10")]
    for lname, ename, L, E in pairs:
        def fn(lname=lname, ename=ename):
            x = sym_vector("x", 1)
            return x, TRANSFORMS[lname](TRANSFORMS[ename](x)), TRANSFORMS[ename](TRANSFORMS[lname](x))

        def pre(L=L, E=E):
            x0 = z3.Real("x0")
            return [uf_decl(L)(uf_decl(E)(x0)) == x0, uf_decl(E)(uf_decl(L)(x0)) == x0]

        def claims(res, lname=lname, ename=ename):
            x, a, b = res
            yield f"{lname}({ename}(x)) == x", lift(a[0]) == lift(x[0])
            yield f"{ename}({lname}(x)) == x", lift(b[0]) == lift(x[0])

        def rep(model, label, ename=ename, lname=lname):
            p = {"kind": "c13_inverse_pair", "log": lname, "exp": ename, "x": model_value(model, z3.Real("x0"))}
            bad = replays.run(p)
            return (f"inverse:{lname}/{ename}", bad, p) if bad else None

        rig.run_sym(check, "elementwise.inverse", fn, claims, pre=pre(), replay=rep, logic=None, timeout_ms=tmo, case_id=f"inverse {lname}/{ename}")
