"""Engine-free rig for C07 (shared by the harness and the native replay)."""

from __future__ import annotations

import numpy
import pandas

from . import na_common as na

N = 4
NULL_SETS = [[], [0], [2], [1, 3]]

# (constructor kind, spec, variables whose nulls matter)
SPECS = [
    ("str", "t ~ z", {"z"}),
    ("str", "t ~ z | w", {"z", "w"}),
    ("str", "t + z ~ a | A", {"z", "A"}),
    ("str", "t ~ a + z | w:A | b", {"z", "w", "A"}),
    ("kw", {"lhs": "t", "rhs": "z + a"}, {"z"}),
    ("kw", {"y": "t + w", "X": ("z", "a + A")}, {"w", "z", "A"}),
    ("tuple", ("t", "z | w"), {"z", "w"}),
    ("kw", {"root": "t", "deps": ("z ~ w",)}, {"z", "w"}),
    ("str", "scale(a) ~ scale(a) + b | scale(a):b + t", set()),
    ("str", "t + scale(a) ~ z + center(b) | scale(a):A", {"z", "A"}),
    ("kw", {"lhs": "center(a) + t", "rhs": ("scale(b)", "center(a):w")}, {"w"}),
    ("str", "t ~ poly(a, 2) | z:a", {"z"}),
    # the same categorical term in two parts whose surrounding terms span different things (full vs reduced rank)
    ("str", "t ~ a + A | 0 + A + z", {"z", "A"}),
    ("kw", {"first": "1 + A + a", "second": "0 + A + t"}, {"A"}),
    ("str", "t ~ A + A:a | A:a + b", {"A"}),
    ("str", "A ~ t + A | a:A", {"A"}),
    # a non-treatment coding used at full rank by one part and at reduced rank by a later one (and inside one part)
    ("str", "t ~ 0 + C(A, contr.sum) + a | C(A, contr.sum) + z", {"A", "z"}),
    ("str", "t ~ 0 + C(A, contr.helmert) | a + C(A, contr.helmert):b", {"A"}),
    ("kw", {"first": "0 + C(A, contr.sum) + b + C(A, contr.sum):b", "second": "C(A, contr.sum) + t"}, {"A"}),
    # a transform that MAKES nulls (lag) of a column that is a plain factor of another part: its nulls belong to the joint drop set
    ("str", "t ~ z | lag(z) + a", {"z"}, [("z", 1)]),
    ("str", "t + w ~ lag(w, 2):a | w + b", {"w"}, [("w", 2)]),
    ("kw", {"first": "z + t", "second": ("a", "lag(z) + b")}, {"z"}, [("z", 1)]),
    # option cluster_by="numerical_factors": every part is laid out as if it were built alone (see SPEC_OPTIONS)
    ("str", "t ~ z + a | a + z + a:A + b", {"z", "A"}, []),
    ("kw", {"first": "b + a + t", "second": ("a + b + b:A", "t:A + a + b:a")}, {"A"}, []),
]
SPECS += [
    # the same stateful call nested in DIFFERENT factor expressions of different parts: every part's spec carries the state it needs
    ("str", "t ~ center(a) + b | {center(a) * b} + z", {"z"}, []),
    ("kw", {"first": "scale(b) + t", "second": ("I(scale(b) + a)", "a:{scale(b) * 2}")}, set(), []),
]
SPECS += [
    # a part that materializes to ZERO columns still holds the same rows as its siblings
    ("str", "t ~ z | 0", {"z"}, []),
    ("kw", {"first": "t + w", "second": ("0", "a + A"), "third": "a - a - 1"}, {"w", "A"}, []),
]
SPEC_OPTIONS = {22: {"cluster_by": "numerical_factors"}, 23: {"cluster_by": "numerical_factors"}}


def make_formula(kind, spec):
    from formulaic import Formula

    if kind == "kw":
        return Formula(**spec)
    return Formula(spec)


def skeleton(obj):
    from formulaic.utils.structured import Structured

    if isinstance(obj, Structured):
        obj = obj._to_dict()
    if isinstance(obj, dict):
        return {k: skeleton(v) for k, v in obj.items()}
    if isinstance(obj, tuple):
        return tuple(skeleton(v) for v in obj)
    return "leaf"


def leaves(obj, path=()):
    from formulaic.utils.structured import Structured

    if isinstance(obj, Structured):
        obj = obj._to_dict()
    if isinstance(obj, dict):
        for k, v in obj.items():
            yield from leaves(v, path + (k,))
    elif isinstance(obj, tuple):
        for i, v in enumerate(obj):
            yield from leaves(v, path + (i,))
    else:
        yield path, obj


def cells_of(m):
    labels = list(m.model_spec.column_names)
    arr = numpy.asarray(m.todense() if hasattr(m, "todense") else m, dtype=object)
    if arr.ndim == 1:
        arr = arr.reshape((-1, len(labels)))
    return labels, arr


def check_config(cfg, numeric: dict, same, tag_eq, symbolic: bool):
    from formulaic import model_matrix

    kind, spec, nvars, *rest = SPECS[cfg["spec_id"]]
    lags = rest[0] if rest else []
    zs, ws, as_ = set(NULL_SETS[cfg["z"]]), set(NULL_SETS[cfg["w"]]), set(NULL_SETS[cfg["A"]])
    df = na.make_frame(N, zs, ws, as_, cfg["index"])
    ctx = None
    if symbolic:
        ctx = dict(numeric)
    else:
        for k, v in numeric.items():
            df[k] = numpy.asarray(v, dtype=float)
    out = cfg["output"]
    mkw = {"materializer": cfg["materializer"]} if cfg.get("materializer") else {}
    mkw.update(SPEC_OPTIONS.get(cfg["spec_id"], {}))
    problems, claims = [], []
    F = make_formula(kind, spec)
    nulls = na.null_rows(nvars, zs, ws, as_)
    for var, off in lags:  # lag(v, k) is null in the first k rows and k rows after every null of v
        src = zs if var == "z" else ws
        nulls = set(nulls) | set(range(off)) | {r + off for r in src if r + off < N}
    kept = [k for k in range(N) if k not in nulls]
    reported: set = set()  # an empty set handed in is how a caller collects the jointly dropped rows
    mm = F.get_model_matrix(df, context=ctx, output=out, drop_rows=reported, **mkw)
    if {int(r) for r in reported} != {int(r) for r in nulls}:
        problems.append(("reported-drop-set", f"the (initially empty) drop set handed to the joint build ends as {sorted(int(r) for r in reported)}, the jointly dropped rows are {sorted(nulls)}"))
    if skeleton(mm) != skeleton(F):
        problems.append(("shape", f"result shape {skeleton(mm)} != formula shape {skeleton(F)}"))
        return problems, claims
    if skeleton(mm.model_spec) != skeleton(F):
        problems.append(("spec-shape", f"model_spec shape {skeleton(mm.model_spec)} != formula shape {skeleton(F)}"))
        return problems, claims
    fl = dict(leaves(F))
    sl = dict(leaves(mm.model_spec))
    for path, part in leaves(mm):
        labels, arr = cells_of(part)
        if arr.shape[0] != len(kept):
            problems.append(("rows-differ", f"part {path} has {arr.shape[0]} rows, the jointly kept rows are {kept}"))
            continue
        if out == "pandas" and not cfg.get("materializer") and list(part.index) != [df.index[k] for k in kept]:
            problems.append(("index-differs", f"part {path} index {list(part.index)} != {[df.index[k] for k in kept]}"))
        if part.model_spec is not sl[path]:
            problems.append(("spec-mismatch", f"part {path}: attached spec is not the one at the same place of .model_spec"))
        for j, lab in enumerate(labels):
            if lab == "t":
                for r, k in enumerate(kept):
                    claims.append((f"part {path} row {r} is input row {k}", tag_eq(arr[r, j], k)))
        # the part alone, with the jointly dropped rows supplied
        alone = model_matrix(fl[path], df, context=ctx, output=out, drop_rows=set(nulls), **mkw)
        la, ca = cells_of(alone)
        if la != labels or ca.shape != arr.shape:
            problems.append(("separate-build-differs", f"part {path}: columns {labels} vs separate build {la}"))
        else:
            claims.append((f"part {path} == separate build of its terms with the joint drop set", _all(same, arr, ca)))
        regen = part.model_spec.get_model_matrix(df, context=ctx, drop_rows=set(nulls))
        lr, cr = cells_of(regen)
        if lr != labels or cr.shape != arr.shape:
            problems.append(("spec-regeneration-differs", f"part {path}: its spec regenerates columns {lr} / shape {cr.shape}, part has {labels} / {arr.shape}"))
        else:
            claims.append((f"part {path} == what its own spec regenerates", _all(same, arr, cr)))
    # the structured spec as a whole regenerates all parts, also on other data (recorded state, not re-fitted)
    joint = mm.model_spec.get_model_matrix(df, context=ctx)
    orig = dict(leaves(mm))
    for path, part in leaves(joint):
        lo, co = cells_of(orig[path])
        lj, cj = cells_of(part)
        if lj != lo or cj.shape != co.shape:
            problems.append(("joint-regeneration-differs", f"part {path}: structured spec regenerates {lj}/{cj.shape}, original {lo}/{co.shape}"))
        else:
            claims.append((f"part {path} == joint regeneration by the structured spec", _all(same, co, cj)))
    if len(kept) >= 2 and not lags:  # (lag is defined across rows: a row subset is a different question)
        sub = kept[:2]
        df2 = df.iloc[sub]
        if symbolic:
            ctx2 = {k: v[sub] for k, v in numeric.items()}
        else:
            ctx2 = None
        follow = mm.model_spec.get_model_matrix(df2, context=ctx2)
        for path, part in leaves(follow):
            lo, co = cells_of(orig[path])
            lf, cf = cells_of(part)
            if lf != lo or cf.shape != (2, len(lo)):
                problems.append(("follow-up-differs", f"part {path}: follow-up on rows {sub} gives {lf}/{cf.shape}"))
            else:
                claims.append((f"part {path}: follow-up on rows {sub} replays the recorded encoding", _all(same, co[:2], cf)))
        # ... and each part's own spec replays it on a frame that declares its categories afresh (only the observed levels)
        df3 = df2.copy()
        df3["A"] = pandas.Categorical(list(df3["A"]))
        for path, part in leaves(mm):
            lo, co = cells_of(part)
            try:
                alone = part.model_spec.get_model_matrix(df3, context=ctx2)
            except Exception as e:
                problems.append(("part-follow-up-raises", f"part {path}: its own spec on rows {sub} with re-declared categories raised {type(e).__name__}: {str(e)[:80]}"))
                continue
            la, ca = cells_of(alone)
            if la != lo or ca.shape != (2, len(lo)):
                problems.append(("part-follow-up-differs", f"part {path}: its own spec on rows {sub} gives {la}/{ca.shape}"))
            else:
                claims.append((f"part {path}: its own spec replays rows {sub} whatever categories the new frame declares", _all(same, co[:2], ca)))
    return problems, claims


def _all(same, x, y):
    cs = [same(x[i, j], y[i, j]) for i in range(x.shape[0]) for j in range(x.shape[1])]
    if cs and isinstance(cs[0], (bool, numpy.bool_)):
        return all(cs)
    from sr.symreal import conj

    return conj(cs)
