"""Engine-free: names that mean different things in different builds of ONE process (a context function shadowing a built-in
transform name in one build, the built-in itself in the next, and the other way round).  Run as a script in a fresh interpreter:
prints one line per problem.  (A labelled ground companion of C18: process-wide state cannot be a symbolic variable.)"""
from __future__ import annotations

import numpy
import pandas


def problems():
    from formulaic import model_matrix

    out = []
    df = pandas.DataFrame({"a": [1.0, 2.0, 4.5, 6.5], "b": [3.0, 1.0, 2.0, 8.0]})
    sub = df.iloc[[3, 0]].reset_index(drop=True)
    mean_a, mean_b = float(df["a"].mean()), float(df["b"].mean())
    sd_b = float(df["b"].std(ddof=1))

    def plain_center(v):
        return numpy.asarray(v) * 0 + 7.0

    def plain_scale(v):
        return numpy.asarray(v) * 2.0

    def check_builtin(name, col, expect_fit, expect_sub, when):
        try:
            mm = model_matrix(f"0 + {name}({col})", df)
        except Exception as e:
            out.append(f"builtin-raises: {name}({col}) with the built-in transform ({when}) raised {type(e).__name__}: {str(e)[:100]}")
            return
        got = numpy.asarray(mm, dtype=float).ravel()
        if not numpy.allclose(got, expect_fit):
            out.append(f"builtin-wrong-values: {name}({col}) ({when}) gives {got.tolist()}, expected {list(expect_fit)}")
        if f"{name}({col})" not in mm.model_spec.transform_state:
            out.append(f"builtin-no-state: {name}({col}) ({when}) recorded no transform state: {dict(mm.model_spec.transform_state)}")
        rep = numpy.asarray(mm.model_spec.get_model_matrix(sub), dtype=float).ravel()
        if not numpy.allclose(rep, expect_sub):
            out.append(f"builtin-refits: {name}({col}) ({when}): the spec applied to two training rows gives {rep.tolist()}, the recorded statistics give {list(expect_sub)}")

    def check_plain(name, fn, col, expect, when):
        try:
            mm = model_matrix(f"0 + {name}({col})", df, context={name: fn})
        except Exception as e:
            out.append(f"plain-raises: {name}({col}) with a plain function of that name in the context ({when}) raised {type(e).__name__}: {str(e)[:100]}")
            return
        got = numpy.asarray(mm, dtype=float).ravel()
        if not numpy.allclose(got, expect):
            out.append(f"plain-wrong-values: {name}({col}) with a plain context function ({when}) gives {got.tolist()}, expected {list(expect)}")
        if mm.model_spec.transform_state:
            out.append(f"plain-records-state: a plain function recorded transform state {dict(mm.model_spec.transform_state)} ({when})")

    a, b = df["a"].to_numpy(), df["b"].to_numpy()
    # order 1: the plain function first, the built-in afterwards
    check_plain("center", plain_center, "a", [7.0] * 4, "first build of the process")
    check_builtin("center", "a", a - mean_a, sub["a"].to_numpy() - mean_a, "after a build in which a plain function carried that name")
    check_plain("center", plain_center, "a", [7.0] * 4, "again, after the built-in")
    # order 2: the built-in first, the plain function afterwards
    check_builtin("scale", "b", (b - mean_b) / sd_b, (sub["b"].to_numpy() - mean_b) / sd_b, "first use of that name in the process")
    check_plain("scale", plain_scale, "b", b * 2.0, "after a build that used the built-in")
    check_builtin("scale", "b", (b - mean_b) / sd_b, (sub["b"].to_numpy() - mean_b) / sd_b, "again, after the plain function")
    return out


if __name__ == "__main__":
    for line in problems():
        print("PROBLEM " + line)
    print("DONE")
