"""Engine-free battery for the hash-seed leg of C18 (a labelled ground companion: enumeration of processes, not solver-decided).

Run as a script under a given PYTHONHASHSEED: prints one digest line per case."""
from __future__ import annotations

import hashlib
import sys

import numpy
import pandas


def battery():
    from formulaic import Formula, model_matrix

    n = 9
    df = pandas.DataFrame({
        "a": [0.5, 1.25, 2.0, 3.5, 4.75, 6.0, 7.5, 8.0, 9.25], "b": [1.0, 7.0, 2.5, 5.5, 0.25, 3.0, 6.5, 2.0, 4.0],
        "z": [1.0, numpy.nan, 3.0, 4.0, numpy.nan, 6.0, 7.0, 8.0, 9.0], "w": [numpy.nan, 2.0, 3.0, 4.0, 5.0, 6.0, numpy.nan, 8.0, 9.0],
        "x 1": [2.5, 0.5, 7.25, 3.0, 1.0, 8.5, 4.0, 6.25, 5.0], "x_1": [1.0, 4.5, 2.25, 8.0, 6.0, 0.5, 3.0, 7.25, 5.5],
        "A": pandas.Categorical(list("xyzxyzxyz")), "B": pandas.Categorical(list("uuuvvvuvu")), "G": pandas.Categorical(["k1", "k2", "k3", "k2", "k1", "k3", "k3", "k1", "k2"]),
    })
    cases = [
        "a + b + A + B + G", "A*B*G", "a:A + b:B + A:B:G + G", "y ~ . - a" if False else "b ~ a + A | B + z | w:G", "scale(a) + center(b):A + poly(a, 2)",
        "0 + A:B + B:G + a:G", "z + w + A", "bs(a, df=4):B + cr(b, df=3)", "C(A, contr.sum) * C(G, contr.helmert) + {a + b}", "a + hashed(G, levels=5) + z",
        "center(`x 1`) + scale(`x 1`):A + {`x 1` * b}", "scale(`x 1`) + center(x_1) + {`x 1` * x_1}", "scale(a) + center(a) + scale(b):G + poly(b, 2)",
        # pure interactions (main effects absent): which margin stays full rank must not depend on set iteration order
        "A:B", "a + A:G", "A:B:G", "b + B:G + A:B", "0 + a + G:A",
    ]
    # follow-up data for spec reuse: what a spec replays must not depend on the hash seed either
    df2 = df.iloc[::-1].reset_index(drop=True).copy()
    for c in ("a", "b", "x 1", "x_1"):
        df2[c] = df2[c] * 0.5 + 1.0  # stays inside the training range (spline bounds)
    out = []
    for f in cases:
        for efr in (True, False):
            drop = set()
            mm = model_matrix(f, df, ensure_full_rank=efr, drop_rows=drop)
            parts = []
            from formulaic.utils.structured import Structured

            if isinstance(mm, Structured):
                mm._map(lambda m: parts.append(m))
            else:
                parts.append(mm)
            h = hashlib.sha256()
            for m in parts:
                h.update(repr(list(m.columns)).encode())
                h.update(numpy.ascontiguousarray(numpy.asarray(m, dtype=float)).tobytes())
                h.update(repr(list(m.index)).encode())
                h.update(repr(list(m.model_spec.column_names)).encode())
                h.update(repr(sorted(m.model_spec.transform_state)).encode())
                if "hashed" not in f:
                    again = m.model_spec.get_model_matrix(df2)
                    h.update(numpy.ascontiguousarray(numpy.asarray(again, dtype=float)).tobytes())
            h.update(repr(sorted(int(i) for i in drop)).encode())
            out.append((f, efr, h.hexdigest()))
    return out


if __name__ == "__main__":
    for f, efr, d in battery():
        print(f"{d} {efr} {f}")
