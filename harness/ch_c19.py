"""C19 — container laws, CrossHair harnesses (each function returns True iff the law holds for its input)."""
from typing import Dict, List, Tuple

from formulaic import Formula
from formulaic.formula import SimpleFormula
from formulaic.parser.types import Factor, Term
from formulaic.utils.layered_mapping import LayeredMapping
from formulaic.utils.structured import Structured

for _k, _v in (("__LO__", -3), ("__HI__", 2), ("__NP__", 3), ("__OP1__", 0), ("__OP2__", 0), ("__ORD__", 0), ("__R__", 5), ("__SHARD__", 0)):
    globals().setdefault(_k, _v)  # defaults for native runs / replays; the runner substitutes the tokens textually


def _pick(x, lo, hi):
    """Concrete value of a bounded symbolic int by explicit branching (a clean hi-lo+1 way split of the path tree)."""
    for v in range(lo, hi):
        if x == v:
            return v
    return hi


# ------------------------------------------------------------------------------------------------ LayeredMapping


def _top(k, d, *layers):
    """Value of k in the top-first merge of the layers (d if absent) - written pointwise, no merged dict is built."""
    for layer in layers:
        if k in layer:
            return layer[k]
    return d


def lm_lookup(l1: Dict[int, int], l2: Dict[int, int], l3: Dict[int, int], k: int) -> bool:
    """
    pre: len(l1) <= 2 and len(l2) <= 2 and len(l3) <= 2
    post: _
    """
    m = LayeredMapping(l1, l2, l3)
    present = (k in l1) or (k in l2) or (k in l3)
    if (k in m) != present:
        return False
    if present:
        if m[k] != _top(k, -7, l1, l2, l3):
            return False
    else:
        try:
            m[k]
            return False
        except KeyError:
            pass
    return m.get(k, -7) == _top(k, -7, l1, l2, l3)


def lm_len_iter(l1: Dict[int, int], l2: Dict[int, int]) -> bool:
    """
    pre: len(l1) <= 2 and len(l2) <= 2
    post: _
    """
    m = LayeredMapping(l1, l2)
    keys = list(m)
    want = []
    for layer in (l1, l2):
        for key in layer:
            if key not in want:
                want.append(key)
    if keys != want or len(m) != len(want):
        return False
    for key in want:
        if m[key] != _top(key, -7, l1, l2):
            return False
    return True


def lm_write(l1: Dict[int, int], l2: Dict[int, int], k: int, v: int, k2: int) -> bool:
    """
    pre: len(l1) <= 2 and len(l2) <= 2 and 0 <= k <= 3
    post: _
    """
    c1, c2 = dict(l1), dict(l2)
    m = LayeredMapping(l1, l2)
    m[k] = v
    if m[k] != v:
        return False
    if l1 != c1 or l2 != c2:  # supplied layers are never mutated
        return False
    want = v if k2 == k else _top(k2, -7, l1, l2)
    if m.get(k2, -7) != want:
        return False
    return (k2 in m) == (k2 == k or k2 in l1 or k2 in l2)


def lm_write_len(l1: Dict[int, int], l2: Dict[int, int], k: int, v: int) -> bool:
    """
    pre: len(l1) <= 1 and len(l2) <= 2 and 0 <= k <= 2
    post: _
    """
    m = LayeredMapping(l1, l2)
    m[k] = v  # may shadow a key of a supplied layer
    keys = list(m)
    if len(m) != len(keys) or keys[0] != k:
        return False
    nkeys = 1 + sum(1 for key in l1 if key != k) + sum(1 for key in l2 if key != k and key not in l1)
    if len(keys) != nkeys:
        return False
    m2 = m.with_layers({k: v + 1}, {7: 7})
    return len(m2) == len(list(m2))


def lm_delete(l1: Dict[int, int], l2: Dict[int, int], k: int, v: int, k2: int) -> bool:
    """
    pre: len(l1) <= 2 and len(l2) <= 2 and 0 <= k <= 3
    post: _
    """
    c1, c2 = dict(l1), dict(l2)
    m = LayeredMapping(l1, l2)
    try:  # deleting a key that was never written is an error and changes nothing
        del m[k]
        return False
    except KeyError:
        pass
    m[k] = v
    del m[k]
    if l1 != c1 or l2 != c2:
        return False
    if len(m) != len(list(m)):
        return False
    return m.get(k2, -7) == _top(k2, -7, l1, l2) and (k2 in m) == (k2 in l1 or k2 in l2)


def lm_with_layers(l1: Dict[int, int], l2: Dict[int, int], k: int, v: int, k2: int, prepend: bool) -> bool:
    """
    pre: len(l1) <= 2 and len(l2) <= 2 and 0 <= k <= 2
    post: _
    """
    c1, c2 = dict(l1), dict(l2)
    m = LayeredMapping(l1, name="one")
    m[k] = v
    m2 = m.with_layers(l2, prepend=prepend, name="two")
    inner = v if k2 == k else _top(k2, -7, l1)
    inner_has = k2 == k or k2 in l1
    if prepend:
        want = l2[k2] if k2 in l2 else inner
    else:
        want = inner if inner_has else _top(k2, -7, l2)
    if m2.get(k2, -7) != want:
        return False
    m2[k] = v + 1  # a write to the derived mapping stays in its own private layer
    if m[k] != v or l1 != c1 or l2 != c2:
        return False
    return m.with_layers() is m


def lm_with_layers_multi(l0: Dict[int, int], l1: Dict[int, int], l2: Dict[int, int], k: int, prepend: bool, inplace: bool) -> bool:
    """
    pre: len(l0) <= 2 and len(l1) <= 2 and len(l2) <= 2
    post: _
    """
    # SEVERAL layers added in one call, in place or as a copy: the result is the top-first merge of the layers in the order
    # given (earlier argument wins), placed above (prepend) or below the existing ones; both variants agree with each other
    c0, c1, c2 = dict(l0), dict(l1), dict(l2)
    m = LayeredMapping(l0, name="zero")
    out = m.with_layers(l1, l2, None, prepend=prepend, inplace=inplace)
    if inplace and out is not m:
        return False
    if not inplace and (out is m) != (not l1 and not l2 and False):
        pass  # (identity of the copy is not part of the law)
    order = [l1, l2, l0] if prepend else [l0, l1, l2]
    want = -7
    for layer in order:
        if k in layer:
            want = layer[k]
            break
    if out.get(k, -7) != want:
        return False
    keys = set(l0) | set(l1) | set(l2)
    if set(out) != keys or len(out) != len(keys):
        return False
    if not inplace and (m.get(k, -7) != l0.get(k, -7) or set(m) != set(l0)):
        return False  # the copy left the original alone
    return l0 == c0 and l1 == c1 and l2 == c2


def lm_named_lookup_consistent(l1: Dict[int, int], l2: Dict[int, int], l3: Dict[int, int], k: int, shape: int) -> bool:
    """
    pre: len(l1) <= 2 and len(l2) <= 2 and len(l3) <= 2 and 0 <= shape < 4
    post: _
    """
    # whatever is nested in whatever, named or not: get_with_layer_name returns the value that plain lookup returns, the default
    # exactly when the key is absent, and the name of the (outermost named) layer the value came from
    shape = _pick(shape, 0, 3)
    if shape == 0:
        m = LayeredMapping(LayeredMapping(l1), LayeredMapping(l2, name="lower"), l3)
        names = [None, "lower", None]
    elif shape == 1:
        m = LayeredMapping(l1, name="top").with_layers(l2)  # copy: an unnamed mapping around [l2, <top>]
        names = ["top", None, None]
        l1, l2 = l2, l1
        names = [None, "top", None]
    elif shape == 2:
        m = LayeredMapping(LayeredMapping(LayeredMapping(l1), l2), LayeredMapping(l3, name="ctx"))
        names = [None, None, "ctx"]
    else:
        m = LayeredMapping(LayeredMapping(l1, name="data"), LayeredMapping(LayeredMapping(l2), name="outer"), l3)
        names = ["data", "outer", None]
    layers = [l1, l2, l3] if shape != 1 else [l1, l2, {}]
    want_v, want_n = -7, None
    for layer, nm in zip(layers, names):
        if k in layer:
            want_v, want_n = layer[k], nm
            break
    got_v, got_n = m.get_with_layer_name(k, default=-7)
    if got_v != want_v or got_v != m.get(k, -7) or (k in m) != (want_v != -7 or any(k in l for l in layers)):
        return False
    if got_n != want_n:
        return False
    return m.get_layer_name_for_key(k) == want_n


def lm_layer_names(l1: Dict[int, int], l2: Dict[int, int], k: int, v: int, w: bool) -> bool:
    """
    pre: len(l1) <= 2 and len(l2) <= 2 and 0 <= k <= 3
    post: _
    """
    m = LayeredMapping(LayeredMapping(l1, name="data"), LayeredMapping(l2, name="context"))
    if w:
        m[k] = v
    val, name = m.get_with_layer_name(k, default=-7)
    if w:
        return val == v and name is None
    if k in l1:
        return val == l1[k] and name == "data"
    if k in l2:
        return val == l2[k] and name == "context"
    return val == -7 and name is None and m.get_layer_name_for_key(k) is None


# ------------------------------------------------------------------------------------------------ Structured

def _shapes():
    S = Structured
    return [
        lambda x: S(x[0]),
        lambda x: S((x[0], x[1])),
        lambda x: S(x[0], a=x[1]),
        lambda x: S(a=x[0], b=(x[1], x[2])),
        lambda x: S(x[0], a=S(x[1], c=x[2]), b=x[3]),
        lambda x: S((x[0], S(x[1], d=(x[2], x[3])))),
        lambda x: S(a=S(b=S(x[0])), c=(S(x[1]), x[2])),
        lambda x: S(S(S(x[0]))),
        lambda x: S(lhs=x[0], rhs=(x[1], x[2], x[3])),
    ]


NSHAPES = 9
NLEAVES = [1, 2, 2, 3, 4, 4, 3, 1, 4]


def _skel(o):
    if isinstance(o, Structured):
        return {k: _skel(v) for k, v in o._structure.items()}
    if isinstance(o, tuple):
        return tuple(_skel(v) for v in o)
    return "leaf"


def st_map(shape: int, x0: int, x1: int, x2: int, x3: int) -> bool:
    """
    pre: 0 <= shape < 9
    post: _
    """
    xs = [x0, x1, x2, x3]
    s = _shapes()[shape](xs)
    flat = list(s._flatten())
    if len(flat) != NLEAVES[shape]:
        return False
    visited = []

    def f(v):
        visited.append(v)
        return v * 2 + 1

    m = s._map(f)
    if _skel(m) != _skel(s):
        return False
    if visited != flat:  # each leaf exactly once, in flatten order
        return False
    return list(m._flatten()) == [v * 2 + 1 for v in flat]


def st_simplify(shape: int, x0: int, x1: int, x2: int, x3: int) -> bool:
    """
    pre: 0 <= shape < 9
    post: _
    """
    xs = [x0, x1, x2, x3]
    s = _shapes()[shape](xs)
    flat = list(s._flatten())
    a = s._simplify()
    fa = list(a._flatten()) if isinstance(a, Structured) else [a]
    if fa != flat:
        return False
    if isinstance(a, Structured):
        b = a._simplify()
        fb = list(b._flatten()) if isinstance(b, Structured) else [b]
        if fb != flat or _skel(b) != _skel(a):
            return False
    # the original is untouched
    return list(s._flatten()) == flat


def _tree(idx, xs):
    """A nested keyed/tuple structure drawn deterministically from `idx` (depth <= 4), its leaves taken from xs in order."""
    import random

    rng = random.Random(idx * 7919 + 13)
    used = [0]

    def leaf():
        v = xs[used[0] % len(xs)] + 1000 * (used[0] // len(xs))
        used[0] += 1
        return v

    def node(depth, in_tuple=False):
        r = rng.random()
        if depth >= 4 or r < 0.3:
            return leaf()
        if r < 0.45 and not in_tuple:
            return tuple(node(depth + 1, True) for _ in range(rng.choice([1, 2, 2])))
        keys = rng.choice([["root"], ["root"], ["root"], ["a"], ["root", "a"], ["a", "b"], ["root", "a", "b"]])
        kw = {k: node(depth + 1) for k in keys}
        return Structured(kw.pop("root"), **kw) if "root" in kw else Structured(**kw)

    keys = rng.choice([["root"], ["root"], ["a"], ["root", "a"], ["a", "b"]])
    kw = {k: node(1) for k in keys}
    return Structured(kw.pop("root"), **kw) if "root" in kw else Structured(**kw)


def _leaves(o):
    if isinstance(o, Structured):
        return [w for v in o._structure.values() for w in _leaves(v)]
    if isinstance(o, tuple):
        return [w for v in o for w in _leaves(v)]
    return [o]


NTREES = 400


def st_simplify_deep(idx: int, x0: int, x1: int, x2: int) -> bool:
    """
    pre: 0 <= idx < 400 and idx % 16 == __SHARD__
    post: _
    """
    # simplification is idempotent and leaf-preserving for EVERY nesting: trees drawn from a generator, leaves symbolic
    idx = _pick(idx, 0, 399)
    xs = [x0, x1, x2]
    s = _tree(idx, xs)
    flat = _leaves(s)
    a = s._simplify()
    if _leaves(a) != flat or _leaves(s) != flat:
        return False
    if isinstance(a, Structured):
        b = a._simplify()
        if _leaves(b) != flat or _skel(b) != _skel(a):
            return False
    # the in-place form (which keeps the outermost wrapper) reaches its fixed point in one step as well, on the object itself
    t = _tree(idx, xs)
    r = t._simplify(unwrap=False, inplace=True)
    if r is not t or _leaves(t) != flat:
        return False
    sk = _skel(t)
    t._simplify(unwrap=False, inplace=True)
    if _skel(t) != sk or _leaves(t) != flat:
        return False
    c = s._simplify(unwrap=False)
    return _skel(c) == sk and _leaves(c) == flat


def st_update_merge(shape: int, x0: int, x1: int, x2: int, x3: int, y: int) -> bool:
    """
    pre: 0 <= shape < 9
    post: _
    """
    xs = [x0, x1, x2, x3]
    s = _shapes()[shape](xs)
    d = s._to_dict(recurse=False)
    u = s._update(zz=y)
    if u._to_dict(recurse=False) != {**d, "zz": y}:
        return False
    u2 = s._update(y)
    if u2._to_dict(recurse=False) != {**d, "root": y}:
        return False
    if s._to_dict(recurse=False) != d:
        return False
    # merge of two flat keyed structures with list leaves is the dictionary merge with list concatenation
    a = Structured(p=[x0], q=[x1])
    b = Structured(q=[x2], r=[x3])
    mg = Structured._merge(a, b)
    if mg._to_dict() != {"p": [x0], "q": [x1, x2], "r": [x3]}:
        return False
    # merge depends on structure, not on object identity: the same instance twice, an equal copy, and shared substructure
    if Structured._merge(a, a)._to_dict() != {"p": [x0, x0], "q": [x1, x1]}:
        return False
    if Structured._merge(a, Structured(p=[x0], q=[x1]))._to_dict() != {"p": [x0, x0], "q": [x1, x1]}:
        return False
    shared = Structured(u=[x2], v=[x3])
    m2 = Structured._merge(Structured(k=shared, p=[x0]), Structured(k=shared, q=[x1]))
    if m2._to_dict() != {"k": {"u": [x2, x2], "v": [x3, x3]}, "p": [x0], "q": [x1]}:
        return False
    if Structured._merge(a, b, a)._to_dict() != {"p": [x0, x0], "q": [x1, x2, x1], "r": [x3]}:
        return False
    if Structured._merge(a, a, merger=lambda *v: sum(len(w) for w in v))._to_dict() != {"p": 2, "q": 2}:
        return False
    if a._to_dict() != {"p": [x0], "q": [x1]} or shared._to_dict() != {"u": [x2], "v": [x3]}:
        return False
    # update REPLACES the value of an existing key, whatever structure the old or the new value carries
    t = Structured(a=(x0, x1), b=Structured(x=x2, y=x3), c=x0)
    if t._update(a=(y,))._to_dict() != {"a": (y,), "b": {"x": x2, "y": x3}, "c": x0}:
        return False
    if t._update(b=Structured(x=y))._to_dict() != {"a": (x0, x1), "b": {"x": y}, "c": x0}:
        return False
    if t._update(a=y, c=(x1, x2))._to_dict() != {"a": y, "b": {"x": x2, "y": x3}, "c": (x1, x2)}:
        return False
    return t._to_dict() == {"a": (x0, x1), "b": {"x": x2, "y": x3}, "c": x0}


# ------------------------------------------------------------------------------------------------ SimpleFormula as a mutable sequence

def _pool():
    fa = lambda *n: Term([Factor(x) for x in n])
    return [Term([Factor("1", eval_method="literal")]), fa("a", "b"), fa("b"), fa("a", "b", "c"), fa("b", "c"), fa("a"), fa("c")]


NPOOL = 7


def _apply(seq, op, i, t, pool):
    """Mirror on a plain list; returns False if the operation is invalid for a list (then the formula must raise too)."""
    if op == 0:
        seq.insert(i, pool[t])
    elif op == 1:
        seq[i] = pool[t]
    else:
        del seq[i]


def sf_ops(op1: int, i1: int, t1: int, op2: int, i2: int, t2: int) -> bool:
    """
    pre: op1 == __OP1__ and op2 == __OP2__ and __LO__ <= i1 <= __HI__ and __LO__ <= i2 <= __HI__ and 0 <= t1 < __NP__ and 0 <= t2 < __NP__
    post: _
    """
    op1, op2 = _pick(op1, 0, 2), _pick(op2, 0, 2)
    i1, i2 = _pick(i1, __LO__, __HI__), _pick(i2, __LO__, __HI__)
    t1, t2 = _pick(t1, 0, __NP__ - 1), _pick(t2, 0, __NP__ - 1)
    pool = _pool()
    ordering = ("degree", "none", "sort")[__ORD__]
    f = SimpleFormula([pool[2], pool[1], pool[0]], _ordering=ordering)
    ref = list(f)
    for op, i, t in ((op1, i1, t1), (op2, i2, t2)):
        mirror = list(ref)
        try:
            _apply(mirror, op, i, t, pool)
            list_ok = True
        except IndexError:
            list_ok = False
        try:
            _apply(f, op, i, t, pool)
            f_ok = True
        except IndexError:
            f_ok = False
        if list_ok != f_ok:
            return False
        if not list_ok:
            continue
        got = list(f)
        degs = [x.degree for x in got]
        # the ordering policy's invariant holds after every operation
        if ordering == "degree" and degs != sorted(degs):
            return False
        if ordering == "none" and [repr(x) for x in got] != [repr(x) for x in mirror]:
            return False
        if ordering == "sort":
            keys = [(x.degree, tuple(sorted(fc.expr for fc in x.factors))) for x in got]
            if keys != sorted(keys) or any([fc.expr for fc in x.factors] != sorted(fc.expr for fc in x.factors) for x in got):
                return False
        if sorted(repr(x) for x in got) != sorted(repr(x) for x in mirror):  # same multiset as a plain list
            return False
        # ... and the mutated formula is the formula one would build from the resulting list
        if [repr(x) for x in SimpleFormula(mirror, _ordering=ordering)] != [repr(x) for x in got]:
            return False
        ref = got
    return True


def sf_more(kind: int, i: int, j: int, t1: int, t2: int, o: int) -> bool:
    """
    pre: 0 <= kind < 6 and -__R__ <= i <= __R__ and -__R__ <= j <= __R__ and 0 <= t1 < __NP__ and 0 <= t2 < __NP__ and 0 <= o < 3 and kind == __SHARD__ and o == __ORD__
    post: _
    """
    # the rest of the mutable-sequence interface: slices (get / set / delete) and the mixin methods built on the abstract ones
    kind, i, j, t1, t2, o = _pick(kind, 0, 5), _pick(i, -__R__, __R__), _pick(j, -__R__, __R__), _pick(t1, 0, __NP__ - 1), _pick(t2, 0, __NP__ - 1), _pick(o, 0, 2)
    pool = _pool()
    ordering = ("degree", "none", "sort")[o]
    f = SimpleFormula([pool[2], pool[1], pool[0], pool[4]], _ordering=ordering)
    mirror = list(f)
    try:
        if kind == 0:
            mirror[i:j] = [pool[t1], pool[t2]]
        elif kind == 1:
            del mirror[i:j]
        elif kind == 2:
            mirror.append(pool[t1])
            mirror.extend([pool[t2]])
        elif kind == 3:
            mirror.pop(i)
        elif kind == 4:
            mirror.remove(pool[t1])
        else:
            mirror = mirror[i:j]
        list_exc = None
    except (IndexError, ValueError) as e:
        list_exc = type(e)
    try:
        if kind == 0:
            f[i:j] = [pool[t1], pool[t2]]
        elif kind == 1:
            del f[i:j]
        elif kind == 2:
            f.append(pool[t1])
            f.extend([pool[t2]])
        elif kind == 3:
            f.pop(i)
        elif kind == 4:
            f.remove(pool[t1])
        else:
            f = f[i:j]
            if not isinstance(f, SimpleFormula) or f.ordering.value != ordering:
                return False
        f_exc = None
    except (IndexError, ValueError) as e:
        f_exc = type(e)
    if list_exc != f_exc:
        return False
    if list_exc is not None:
        return True
    got = list(f)
    if sorted(repr(x) for x in got) != sorted(repr(x) for x in mirror):
        return False
    if ordering == "none":
        return [repr(x) for x in got] == [repr(x) for x in mirror]
    return [repr(x) for x in SimpleFormula(mirror, _ordering=ordering)] == [repr(x) for x in got]


def sf_shards(lo, hi, npool, orderings=("degree", "none", "sort")):
    return [{"OP1": a, "OP2": b, "LO": lo, "HI": hi, "NP": npool, "ORD": ("degree", "none", "sort").index(o)} for o in orderings for a in range(3) for b in range(3)]


def explain(fname, call):
    if fname == "st_simplify_deep" and call and call.get("args"):
        try:
            return f"container law st_simplify_deep (simplification idempotent and leaf-preserving, also in place) fails for the nesting {_skel(_tree(call['args'][0], [1, 2, 3]))}"
        except Exception:
            pass
    return f"container law {fname} fails for {call}"
