from ch import runner

from . import ch_c20


def run_c20(check, thorough):
    for f in ("dterm", "dformula"):
        check.functions.add(f"harness.ch_c20:{f}")
    check.functions.update({"formulaic.utils.calculus:differentiate_term", "formulaic.formula:SimpleFormula.differentiate"})
    def _safe(fn, *a):
        try:
            return fn(*a) is True
        except Exception:  # an exception escaping from the code under test is a failed law
            return False

    fails = [("dterm", [mk, n, a, b]) for mk in range(32) for n in (1, 2) for a in range(4) for b in range(4) if not _safe(ch_c20.dterm, mk, n, a, b)]
    fails += [("dformula", [a, b, c, w, o]) for a in range(8) for b in range(8) for c in range(8) for w in range(3) for o in range(3) if not _safe(ch_c20.dformula, a, b, c, w, o)]
    check.obligation("derivative.terms/native cross-validation", "ground" if not fails else "refuted")
    for fname, args in fails[:1]:
        extra = f" (source ordering {('degree', 'none', 'sort')[args[4]]!r})" if fname == "dformula" else ""
        check.violation(f"{fname}" + (f"[ordering={('degree', 'none', 'sort')[args[4]]}]" if fname == "dformula" else ""), f"term-level differentiation law {fname} fails natively for {args}{extra}",
                        {"kind": "ch_native", "module": "ch_c20", "function": fname, "call": {"args": args, "kwargs": {}}})
    # every route to a derivative agrees: Formula.differentiate, ModelSpec.differentiate (fresh and materialized), also for
    # variables whose names coincide with built-in transforms (I, C, log) or are quoted (native, ground)
    import itertools

    import pandas
    from formulaic import Formula, ModelSpec, model_matrix

    names_sets = [("a", "b", "c"), ("I", "C", "log"), ("scale", "b", "`x y`"), ("np", "Q", "exp")]
    shapes = ["{0} + {1} + {0}:{1} + {0}:{1}:{2}", "{0}:{1} + {2}", "{2} + {0}:{2} + {1}"]
    routes_bad = []
    for ns, shp in itertools.product(names_sets, shapes):
        f = shp.format(*ns)
        cols = [n.strip("`") for n in ns]
        df = pandas.DataFrame({c: [float(i + 1 + 2 * k) for i in range(4)] for k, c in enumerate(cols)})
        for wrt in [(cols[0],), (cols[1],), (cols[0], cols[1]), (cols[2], cols[0]), (cols[0], cols[0])]:
            try:
                want = [repr(t) for t in Formula(f).differentiate(*wrt)]
                got1 = [repr(t) for t in ModelSpec(formula=Formula(f)).differentiate(*wrt).formula]
                got2 = [repr(t) for t in model_matrix(f, df).model_spec.differentiate(*wrt).formula]
            except Exception as e:
                routes_bad.append((f, wrt, f"raised {type(e).__name__}: {str(e)[:80]}"))
                continue
            if got1 != want or got2 != want:
                routes_bad.append((f, wrt, f"Formula.differentiate gives {want}, ModelSpec.differentiate {got1} (fresh) / {got2} (materialized)"))
    # structured formulas: every part's derivative is the derivative of that part (same nested shape)
    from formulaic.utils.structured import Structured

    for f, wrt in itertools.product(("y ~ a + a:b", "y + a ~ a:b | b + a:c", "a:b | a + b"), (("a",), ("b", "a"), ("y",))):
        try:
            F = Formula(f)
            D = F.differentiate(*wrt)
            want = F._map(lambda part: [repr(t) for t in part.differentiate(*wrt)])
            got = D._map(lambda part: [repr(t) for t in part])
            same = isinstance(D, Structured) and got._to_dict() == want._to_dict()
        except Exception as e:
            routes_bad.append((f, wrt, f"raised {type(e).__name__}: {str(e)[:80]}"))
            continue
        if not same:
            routes_bad.append((f, wrt, f"StructuredFormula.differentiate gives {got._to_dict()}, differentiating each part gives {want._to_dict()}"))
            continue
        # ... and so does the collection of model specs of a structured formula (fresh, and attached to a built matrix)
        df4 = pandas.DataFrame({c: [float(i + 1 + 2 * k) for i in range(4)] for k, c in enumerate("yabc")})
        for how in ("fresh", "materialized"):
            try:
                specs = ModelSpec.from_spec(F) if how == "fresh" else model_matrix(f, df4).model_spec
                gs = specs.differentiate(*wrt)._map(lambda sp: [repr(t) for t in sp.formula])._to_dict()
            except Exception as e:
                routes_bad.append((f, wrt, f"ModelSpecs.differentiate ({how}) raised {type(e).__name__}: {str(e)[:80]}"))
                continue
            if gs != want._to_dict():
                routes_bad.append((f, wrt, f"ModelSpecs.differentiate ({how}) gives {gs}, differentiating each part gives {want._to_dict()}"))
    check.obligation("derivative.routes/ground", "ground" if not routes_bad else "refuted")
    for f, wrt, msg in routes_bad[:3]:
        check.violation("derivative-routes-differ", f"d/d{list(wrt)} of {f!r}: {msg}", {"kind": "c20_routes", "formula": f, "wrt": list(wrt)})
    runner.run_module(check, "ch_c20", {"dterm": [0, 1, 2, 3], "dformula": list(range(8))}, pct=600 if thorough else 100, ppt=15, group="derivative.terms",
                      keyer=lambda fname, call: f"{fname}")


def run_c09(check, thorough):
    check.functions.add("harness.ch_c20:enforce")
    check.functions.add("formulaic.materializers.base:FormulaMaterializer._enforce_structure")
    ok = all(ch_c20.enforce(k, m, a, b, c) for k in range(4) for m in range(4) for a in range(6) for b in range(6) for c in range(6))
    check.obligation("enforce_structure/native cross-validation", "ground" if ok else "refuted")
    if not ok:
        bad = next((k, m, a, b, c) for k in range(4) for m in range(4) for a in range(6) for b in range(6) for c in range(6) if not ch_c20.enforce(k, m, a, b, c))
        check.violation("enforce", f"_enforce_structure law fails natively for {bad}", {"kind": "ch_native", "module": "ch_c20", "function": "enforce", "call": {"args": list(bad), "kwargs": {}}})
    runner.run_module(check, "ch_c20", {"enforce": [0, 1, 2, 3]}, pct=600 if thorough else 100, ppt=15, group="enforce_structure",
                      keyer=lambda fname, call: f"{fname}")
