"""Engine-free part of C17: required variables are sufficient and necessary; reported sources are where values came from."""
from __future__ import annotations

import types

import numpy
import pandas

FORMULAS = ["a + b", "a:b + c", "`x y` + a", "log(a) + b", "np.log(a) + I(b*c)", "{a + b} + c", "C(A) + a", "center(a):b", "poly(a, 2) + `x y`:c",
            "y ~ a + b", "scale(a, center=False) ~ b | c", "a + f(b, g(c))", "{a + `x y`}", "bs(a, df=3) + A:b", "y ~ . - a",
            "I(np.log(a) - np.log(b))", "np.log(np.log(c + 10) + 10)", "f(a, v=b)", "np.where(a > 2, a, b)", "y ~ a.clip(0, b)", "np.log(`x.1`) + a", "{b[0] + a}",
            # attribute chains on a data column: the variable is reported with its chain ('a.values.T'); the column it needs is its root
            "{a.values.T} + b", "I(a.values.real):c", "np.log(a.values.T.real) + `x y`"]


def frame():
    return pandas.DataFrame({
        "a": [1.0, 2.0, 3.5, 4.0, 6.0], "b": [2.0, 1.0, 5.0, 3.0, 0.5], "c": [0.5, 0.25, 4.0, 1.0, 2.0], "y": [1.0, 0.0, 1.0, 1.0, 0.0],
        "A": pandas.Categorical(["u", "v", "u", "w", "v"]), "x y": [3.0, 1.0, 2.0, 5.0, 4.0], "x.1": [1.5, 2.5, 3.5, 4.5, 5.5],
        "x_y": [0.5, 4.0, 1.0, 2.0, 3.0],  # a genuine column that looks like the sanitised alias of `x y`
        "id": [7.0, 3.0, 9.0, 1.0, 5.0], "max": [2.5, 0.5, 1.5, 4.5, 3.5],  # columns named like Python builtins (data still comes first)
    })


CONTEXT = {"f": lambda u, v: u + v, "g": lambda u: u * 2}


def check_formula(formula: str):
    """-> list of (tag, message)"""
    from formulaic import Formula, model_matrix
    from formulaic.errors import FactorEvaluationError
    from formulaic.utils.structured import Structured

    out = []
    df = frame()
    F = Formula(formula, _context={"__formulaic_variables_available__": list(df.columns)}) if "." in formula.split("~")[-1] and " . " in f" {formula} " else Formula(formula)
    known = set(df.columns)
    root = lambda v: v if v in known else v.split(".", 1)[0]
    req = set(root(str(v)) for v in F.required_variables)
    if not req <= known:
        out.append(("required-not-in-data", f"{formula!r}: required_variables {sorted(req)} contains names that are not data columns"))
        return out
    sub = df[[c for c in df.columns if c in req]]
    try:
        mm = F.get_model_matrix(sub, context=CONTEXT)
    except Exception as e:
        out.append(("not-sufficient", f"{formula!r}: data restricted to required_variables {sorted(req)} does not materialize: {type(e).__name__}: {str(e)[:100]}"))
        return out
    for v in sorted(req):
        try:
            F.get_model_matrix(sub.drop(columns=[v]), context=CONTEXT)
            out.append(("not-necessary", f"{formula!r}: materializes without the 'required' variable {v!r}"))
        except FactorEvaluationError:
            pass
        except Exception as e:
            import builtins

            if hasattr(builtins, v):
                continue  # without the column the name falls through to the Python builtin: the build still fails, with whatever that object causes
            out.append(("wrong-error", f"{formula!r}: removing {v!r} raises {type(e).__name__} instead of FactorEvaluationError"))
    specs = []
    if isinstance(mm, Structured):
        mm.model_spec._map(lambda s: specs.append(s))
        after = set()
        for s in specs:
            after |= set(root(str(v)) for v in s.required_variables)
    else:
        after = set(root(str(v)) for v in mm.model_spec.required_variables)
    if after != req:
        out.append(("required-after-materialization", f"{formula!r}: required variables before {sorted(req)} / after materialization {sorted(after)}"))
    return out


def check_sources():
    """Names present in two layers: the reported source is where the value actually came from."""
    from formulaic import model_matrix

    out = []
    df = frame()
    cases = [
        # (formula, context, expectations: {variable: source}, column checks)
        ("a + z", {"a": numpy.full(5, 99.0), "z": numpy.arange(5.0)}, {"a": "data", "z": "context"}, {"a": list(df["a"]), "z": [0.0, 1.0, 2.0, 3.0, 4.0]}),
        ("log(a)", {}, {"a": "data", "log": "transforms"}, {"log(a)": list(numpy.log(df["a"]))}),
        ("log(a)", {"log": lambda v: v * 0 + 7.0}, {"a": "data", "log": "context"}, {"log(a)": [7.0] * 5}),
        ("C(A):z", {"z": numpy.arange(5.0) + 1, "C": None}, None, None),  # a context entry may not break data-first lookup of A
        ("b + c", {"b": numpy.zeros(5), "c": numpy.zeros(5)}, {"b": "data", "c": "data"}, {"b": list(df["b"]), "c": list(df["c"])}),
        # chains of two or more attribute accesses: the source is that of the ROOT name
        ("{a.values.T} + b", {}, {"a.values.T": "data", "b": "data"}, {"b": list(df["b"])}),
        ("{k.opts.w} + a", {"k": types.SimpleNamespace(opts=types.SimpleNamespace(w=numpy.arange(5.0)))}, {"k.opts.w": "context", "a": "data"}, {"k.opts.w": [0.0, 1.0, 2.0, 3.0, 4.0]}),
        ("{a.values.T.real + k.opts.w}", {"k": types.SimpleNamespace(opts=types.SimpleNamespace(w=numpy.arange(5.0))), "a": types.SimpleNamespace(values=None)},
         {"a.values.T.real": "data", "k.opts.w": "context"}, {"a.values.T.real + k.opts.w": [1.0, 3.0, 5.5, 7.0, 10.0]}),
    ]
    for formula, ctx, sources, cols in cases:
        if sources is None:
            continue
        try:
            mm = model_matrix(formula, df, context=ctx)
        except Exception as e:
            out.append(("resolution-failed", f"{formula!r}: {type(e).__name__}: {str(e)[:100]}"))
            continue
        spec = mm.model_spec
        got = {str(v): v.source for v in spec.variables}
        for name, src in sources.items():
            if got.get(name) != src:
                out.append(("wrong-source", f"{formula!r} with context keys {sorted(ctx)}: source of {name!r} reported as {got.get(name)!r}, value came from {src!r}"))
        bysrc = {k: {str(v) for v in vs} for k, vs in spec.variables_by_source.items()}
        for name, src in sources.items():
            if name not in bysrc.get(src, set()):
                out.append(("wrong-source", f"{formula!r}: variables_by_source[{src!r}] lacks {name!r}: {bysrc}"))
        for col, want in cols.items():
            if not numpy.allclose(numpy.asarray(mm[col], dtype=float), want):
                out.append(("wrong-layer-used", f"{formula!r} with context keys {sorted(ctx)}: column {col!r} = {list(mm[col])}, expected {want}"))
        want_req = {n for n, s in sources.items() if s == "data"}
        if {str(v) for v in spec.required_variables} != want_req:
            out.append(("required-after-materialization", f"{formula!r}: ModelSpec.required_variables = {sorted(map(str, spec.required_variables))}, data variables used are {sorted(want_req)}"))
    return out


# ------------------------------------------------------------------------------------------------ generated formulas

_NUM = ["a", "b", "c", "`x y`", "x_y", "`x y`", "id", "max"]
_COL = {"a": "a", "b": "b", "c": "c", "`x y`": "x y", "x_y": "x_y", "id": "id", "max": "max"}


def generated(seed: int, n: int):
    """[(formula, set of data columns it reads)] - the second component is known by construction, not read back from the library."""
    import random

    rng = random.Random(seed)

    def expr(depth=0):
        v = rng.choice(_NUM)
        used = {_COL[v]}
        k = rng.random()
        if depth >= 2 or k < 0.25:
            return v, used
        if k < 0.45:
            e2, u2 = expr(depth + 1)
            return f"{v} {rng.choice(['+', '*', '-'])} {e2}", used | u2
        if k < 0.6:
            e2, u2 = expr(depth + 1)
            return f"np.log({e2} + 10)", u2
        if k < 0.7:
            e2, u2 = expr(depth + 1)
            return f"f({v}, g({e2}))", used | u2
        if k < 0.8:
            return f"{v}.values", used
        if k < 0.9:
            e2, u2 = expr(depth + 1)
            return f"np.where({v} > 2, {v}, {e2})", used | u2
        return f"abs({v})", used

    def factor():
        k = rng.random()
        if k < 0.2:
            v = rng.choice(_NUM)
            return v, {_COL[v]}
        if k < 0.3:
            return "C(A)", {"A"}
        if k < 0.38:
            return "A", {"A"}
        e, u = expr()
        w = rng.choice(["I({})", "{{{}}}", "center({})", "scale({})", "log({} + 20)", "np.sqrt(abs({}))", "poly({}, 2)"])
        if w == "{{{}}}" and ("{" in e or "}" in e):
            w = "I({})"
        return w.format(e), u

    out, seen = [], set()
    while len(out) < n:
        terms, used = [], set()
        for _ in range(rng.randint(1, 3)):
            fs = []
            for _ in range(rng.choice([1, 1, 2])):
                f, u = factor()
                fs.append(f)
                used |= u
            terms.append(":".join(fs))
        rhs = " + ".join(terms)
        if rng.random() < 0.25:
            rhs, used = "y ~ " + rhs, used | {"y"}
        if rhs not in seen:
            seen.add(rhs)
            out.append((rhs, used))
    return out


def check_generated(formula: str, used: set):
    from formulaic import Formula

    known = set(frame().columns)
    root = lambda v: v if v in known else v.split(".", 1)[0]
    req = set(root(str(v)) for v in Formula(formula).required_variables)
    out = []
    if req != used:
        out.append(("required-set", f"{formula!r}: required_variables {sorted(req)}, the formula reads the columns {sorted(used)}"))
    return out + check_formula(formula)


def check_live_spec():
    """One unmaterialized ModelSpec, read / edited in place / read again: its required variables follow its (mutable) formula,
    and the set handed out is the caller's to change."""
    from formulaic import Formula, ModelSpec
    from formulaic.parser.types import Factor, Term

    out = []
    for f, extra in (("a + b", "c"), ("log(a) + A + y", "b"), ("center(a):A", "`x y`")):
        spec = ModelSpec(formula=Formula(f))
        target = spec.formula
        before = {str(v) for v in spec.required_variables}
        name = extra.strip("`")
        new_term = Term([Factor(name, eval_method="lookup")])
        target.append(new_term)
        after = {str(v) for v in spec.required_variables}
        if after != before | {name}:
            out.append(("stale-after-append", f"{f!r}: after appending the term {extra} to the spec's formula its required variables are {sorted(after)}, expected {sorted(before | {name})}"))
        target.remove(new_term)
        again = {str(v) for v in spec.required_variables}
        if again != before:
            out.append(("stale-after-remove", f"{f!r}: after removing the term again the required variables are {sorted(again)}, expected {sorted(before)}"))
        handed = spec.required_variables
        try:
            handed.clear()
        except Exception:
            pass
        final = {str(v) for v in spec.required_variables}
        if final != before:
            out.append(("aliased-result", f"{f!r}: clearing the set returned by required_variables changed later reads to {sorted(final)}"))
    return out
