"""python -m harness.run Cxx --tier quick|thorough  — dispatches to harness/cxx.py:run(check)."""
import argparse
import importlib
import os
import sys
import traceback

sys.path.insert(0, os.path.dirname(os.path.dirname(os.path.abspath(__file__))))

from lib.common import EXIT_HARNESS, Check  # noqa: E402


import faulthandler
import signal

faulthandler.register(signal.SIGUSR1, all_threads=True)  # `kill -USR1 <pid>` dumps the stacks of a check that seems stuck


def main() -> int:
    ap = argparse.ArgumentParser()
    ap.add_argument("pid")
    ap.add_argument("--tier", default=os.environ.get("VERIF_TIER", "quick"), choices=["quick", "thorough"])
    args = ap.parse_args()
    seed = int(os.environ.get("VERIF_SEED", "0") or 0)
    check = Check(args.pid, args.tier, seed)
    from sr import symreal

    symreal.XCHECK["every"] = 40 if args.tier == "thorough" else (400 if os.environ.get("VERIF_XCHECK", "1") != "0" else 0)
    mod = importlib.import_module(f"harness.{args.pid.lower()}")
    try:
        mod.run(check)
    except Exception:
        traceback.print_exc()
        check.harness_error("harness crashed: " + traceback.format_exc().splitlines()[-1])
    return check.finish()


if __name__ == "__main__":
    sys.exit(main())
