"""C11 — built-in contrast codings: valid and standard for n <= 8 (12 thorough) (ground + QF_LRA), encoding == indicator x coding for all data (SR)."""

from __future__ import annotations

import itertools
from fractions import Fraction

import numpy
import pandas
import z3

from formulaic import model_matrix
from formulaic.transforms.contrasts import (DiffContrasts, HelmertContrasts, PolyContrasts, SASContrasts, SumContrasts, TreatmentContrasts)
from lib.common import Check, FunctionRecorder
from oracle import contrasts_ref as ref
from sr import rig, symreal
from sr.npproxy import patched_numpy
from sr.pipeline import symbolic_pipeline
from sr.symreal import SReal, conj, lift, model_value, sym_vector

from . import replays


from .c11_ground import LABEL_TYPES, _ground, configs, labels_for, pipeline_specs


def q(v):
    f = Fraction(float(v))
    return z3.RealVal(f"{f.numerator}/{f.denominator}")


_LRA_CAP_MS = [12000]


def invertible(M) -> str:
    k = M.shape[1]
    s = z3.SolverFor("QF_LRA")
    s.set("timeout", max(10000, _LRA_CAP_MS[0] - 2000))
    c = [z3.Real(f"c{j}") for j in range(k)]
    for cj in c:
        s.add(cj <= 1, cj >= -1)
    s.add(z3.Or(*[cj == 1 for cj in c]))
    eps = z3.RealVal("1/100000000")
    for i in range(M.shape[0]):
        row = z3.Sum([q(M[i, j]) * c[j] for j in range(k)])
        s.add(row <= eps, row >= -eps)
    return {"unsat": "invertible", "sat": "singular"}.get(symreal._timed_check(s, hard_ms=_LRA_CAP_MS[0]), "unknown")


def run(check: Check) -> None:
    thorough = check.tier == "thorough"
    tmo = 60000 if thorough else 10000
    check.info["explanation"] = (
        "Per configuration (n levels, contrast, options, label type) ground facts on the matrices the real classes return: reduced coding n x (n-1), "
        "full coding = identity, coefficient_matrix . [1|coding] = I, zero column sums, dense = sparse, equality with closed-form R/textbook "
        "definitions in exact rationals. Solver-decided: [1|coding].c = 0 => c = 0 over all c (QF_LRA); contr.poly with symbolic scores "
        "(n=3) is orthonormal and orthogonal to 1 (QF_NRA, Engine SR); and in the real pipeline a:C(A, contr.X) / C(A, contr.X) with a "
        "symbolic numeric column: every cell == a_i x reference coding[level_i, j] for all a (ties encoding = indicator x coding, reference level, "
        "explicit level lists, absent levels, nulls)."
    )
    check.info["rule"] = "configuration = (n, contrast+options, label type) for the ground/LRA part; (contrast, layout, reduced/full) for the pipeline part"
    nmax = 12 if thorough else 8
    _LRA_CAP_MS[0] = 45000 if thorough else 12000
    check.bounds.update({"n": f"1..{nmax}", "label_types": ["str", "int", "mixed-order str", "ints holding 0", "strings holding ''"], "poly_symbolic_scores_n": 3})
    check.out_of_scope += [f"n > {nmax} ('for every n' cannot be symbolic: n is an array shape)", "custom contrasts"]
    rec = FunctionRecorder(check.functions)
    with rec:
        for n in range(1, nmax + 1):
            for ltype in LABEL_TYPES:
                labels = labels_for(n, ltype)
                if ltype != "str" and not thorough and n not in (1, 3, 5):
                    continue
                for tag, contr, want, zero_sum in configs(n, labels):
                    ident = f"n={n} {tag} labels={ltype}"
                    bad = _ground(contr, labels, want, zero_sum, n)
                    check.case(ident)
                    check.obligation("coding/ground", "refuted" if bad else "ground", 1)
                    if bad:
                        p = {"kind": "c11_coding", "n": n, "tag": tag, "ltype": ltype}
                        b2 = replays.run(p)
                        if b2:
                            check.violation(f"coding::{tag.split('(')[0]}::{b2.split(':', 1)[0]}", f"{ident}: {b2}", p)
                        else:
                            check.nonreproducing(f"{ident}: {bad}")
                        continue
                    if n >= 1:
                        M = numpy.hstack([numpy.ones((n, 1)), numpy.asarray(contr.get_coding_matrix(labels, reduced_rank=True), dtype=float).reshape((n, -1))])
                        st = invertible(M)
                        check.obligation("coding/[1|coding] invertible (QF_LRA)", "proved" if st == "invertible" else ("unknown" if st == "unknown" else "refuted"))
                        if st == "singular":
                            p = {"kind": "c11_coding", "n": n, "tag": tag, "ltype": ltype}
                            check.violation(f"coding::{tag.split('(')[0]}::singular", f"{ident}: [1|coding] is singular", p)
    check.sample({"n": 4, "contrast": "helmert(reverse=True,scale=False)", "facts": ["shape", "identity", "inverse", "zero sums", "dense=sparse", "== R definition", "invertible (LRA)"]})

    # contr.poly with symbolic scores
    with patched_numpy("formulaic.transforms.poly"):
        for n in (2, 3):
            def fn(n=n):
                s = [SReal.var(f"s{i}") for i in range(n)]
                return numpy.asarray(PolyContrasts(scores=s)._get_coding_matrix(list(range(n)), reduced_rank=True))

            def claims(m, n=n):
                cols = [[lift(m[i, j]) for i in range(n)] for j in range(n - 1)]
                for j in range(n - 1):
                    yield f"poly scores: col {j} sums to zero", sum(cols[j]) == 0
                    for k in range(j, n - 1):
                        yield f"poly scores: <col{j},col{k}>", sum(x * y for x, y in zip(cols[j], cols[k])) == (1 if j == k else 0)

            rig.run_sym(check, "coding.poly_symbolic_scores", fn, claims, timeout_ms=tmo, case_id=f"poly scores n={n}",
                        replay=lambda model, label, n=n: (lambda p: (("coding::poly", replays.run(p), p) if replays.run(p) else None))(
                            {"kind": "c11_poly_scores", "scores": [model_value(model, z3.Real(f"s{i}")) for i in range(n)]}))

    # pipeline: encoding = a x coding[level]
    levels = ["x", "y", "z"]
    rows = ["x", "y", "z", "y", "x", "z", None]
    specs = pipeline_specs()
    n = len(rows)
    df = pandas.DataFrame({"A": pandas.Categorical(rows, categories=levels)})
    kept = [i for i, r in enumerate(rows) if r is not None]
    for spec, coding, lv in specs:
        for formula, reduced in ((f"a:{spec}", False), (f"1 + a:{spec}", False), (f"1 + {spec}", True), (f"0 + {spec}", False), (f"1 + a + a:{spec}", True)):
            def fn(formula=formula):
                a = sym_vector("a", n)
                with symbolic_pipeline():
                    return model_matrix(formula, df, context={"a": a}, output="numpy")

            def claims(mm, formula=formula, coding=coding, lv=lv, reduced=reduced, spec=spec):
                labels = list(mm.model_spec.column_names)
                cells = numpy.asarray(mm, dtype=object).reshape((len(kept), len(labels)))
                yield "null rows dropped", cells.shape[0] == len(kept)
                cat_cols = [j for j, l in enumerate(labels) if spec in l]
                full = numpy.eye(len(lv))
                want = coding if reduced else full
                yield f"{len(cat_cols)} columns for the categorical factor ({'reduced' if reduced else 'full'})", len(cat_cols) == want.shape[1]
                if len(cat_cols) != want.shape[1]:
                    return
                with_a = formula.count("a:") > 0
                cl = []
                for r, i in enumerate(kept):
                    li = lv.index(rows[i]) if rows[i] in lv else None
                    for c, j in enumerate(cat_cols):
                        w = q(want[li, c]) if li is not None else z3.RealVal(0)  # a value outside the nominated levels: zero row
                        if with_a:
                            w = w * z3.Real(f"a{i}")
                        d = lift(cells[r, j]) - w
                        cl.append(z3.And(d <= z3.RealVal("1/1000000000") * (1 + z3.Real(f"a{i}") * z3.Real(f"a{i}")), d >= -z3.RealVal("1/1000000000") * (1 + z3.Real(f"a{i}") * z3.Real(f"a{i}"))))
                yield "every cell == a_i x coding[level_i, j] (1e-9 relative)", conj(cl)

            def rep(model, label, formula=formula, spec=spec):
                p = {"kind": "c11_pipeline", "formula": formula, "spec": spec, "a": [model_value(model, z3.Real(f"a{i}")) for i in range(n)]}
                for cand in (p, dict(p, a=[1.5, -2.0, 3.25, 0.5, 4.0, -1.0, 2.0])):
                    bad = replays.run(cand)
                    if bad:
                        return (f"encoding::{spec}", bad, cand)
                return None

            rig.run_sym(check, "encoding", fn, claims, replay=rep, timeout_ms=tmo, case_id=f"{formula}",
                        sample={"formula": formula, "data": "A with levels x,y,z and a null; a symbolic", "reference": "closed-form coding"}, record=False)
            # native companion (ground): the other output types have their own encoding code paths (sparse slicing / products)
            for out in ("sparse", "pandas"):
                cand = {"kind": "c11_pipeline", "formula": formula, "spec": spec, "a": [1.5, -2.0, 3.25, 0.5, 4.0, -1.0, 2.0], "output": out}
                try:
                    bad = replays.run(cand)
                except Exception as e:
                    bad = f"raised-{type(e).__name__}: {formula!r} (output={out}): {str(e)[:120]}"
                check.case(f"{formula} [{out}]")
                check.obligation(f"encoding.{out}/ground", "refuted" if bad else "ground")
                if bad:
                    check.violation(f"encoding::{spec}::{out}", bad, cand)


