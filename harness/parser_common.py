"""Engine-free helpers for the parser properties (C01 / C14 / C15 / C17): observation of the real parser in a comparable form."""
from __future__ import annotations

SIGMA = ["a", "b", "c", "0", "1", "2", "+", "-", "*", "/", ":", "**", "^", "%in%", "~", "|", "(", ")", "."]
SIGMA16 = [s for s in SIGMA if s not in ("c", "2", "^")]
SIGMA9 = ["a", "b", "1", "+", "-", ":", "*", "(", ")"]
AVAILABLE = ["y", "a", "b"]


def _untraced():
    try:
        from crosshair.tracers import NoTracing, is_tracing

        if is_tracing():
            return NoTracing()
    except Exception:
        pass
    import contextlib

    return contextlib.nullcontext()


def norm_terms(terms):
    return [tuple(sorted(f.expr for f in t.factors)) for t in terms]


def norm_structure(obj):
    from formulaic.utils.structured import Structured

    if isinstance(obj, Structured):
        return {k: norm_structure(v) for k, v in obj._structure.items()}
    if isinstance(obj, tuple):
        return tuple(norm_structure(v) for v in obj)
    return norm_terms(obj)


def observe(stream: str, include_intercept=True, flags=("TWOSIDED", "MULTIPART"), available=None):
    """-> ("ok", structure) | ("reject", exception type name)"""
    from formulaic.errors import FormulaParsingError
    from formulaic.formula import Formula, SimpleFormula
    from formulaic.parser import DefaultFormulaParser

    parser = DefaultFormulaParser(include_intercept=include_intercept, feature_flags=set(f.lower() for f in flags))
    ctx = {"__formulaic_variables_available__": list(available)} if available is not None else None
    try:
        f = Formula.from_spec(stream, parser=parser, context=ctx)
    except FormulaParsingError as e:
        return "reject", type(e).__name__
    except Exception as e:  # internal exception types are C14's subject; for C01 the stream was not accepted
        return "reject", type(e).__name__
    if isinstance(f, SimpleFormula):
        return "ok", {"root": norm_terms(f)}
    return "ok", norm_structure(f)


def compare(symbols, include_intercept=True, flags=("TWOSIDED", "MULTIPART"), available=None):
    """-> (verdict, detail): verdict in agree / dontcare / accepts-outside-grammar / rejects-inside-grammar / different-terms"""
    from oracle import wilkinson_ref as W

    with _untraced():  # the reference reading is not the code under test: run it outside CrossHair's tracer (inputs are concrete here)
        want = W.evaluate(list(symbols), include_intercept=include_intercept, twosided="TWOSIDED" in flags, multipart="MULTIPART" in flags, available=available)
    if want == W.DONTCARE:
        return "dontcare", None
    got = observe(" ".join(symbols), include_intercept, flags, available)
    if want == W.REJECT:
        if got[0] == "reject":
            return "agree", None
        return "accepts-outside-grammar", f"accepted as {got[1]}"
    if got[0] == "reject":
        return "rejects-inside-grammar", f"rejected with {got[1]}; the documented algebra gives {want}"
    if got[1] == want:
        return "agree", None
    return "different-terms", f"library: {got[1]}; documented algebra: {want}"
