"""Engine-free helpers for the parser properties (C01 / C14 / C15 / C17): observation of the real parser in a comparable form."""
from __future__ import annotations

SIGMA = ["a", "b", "c", "0", "1", "2", "+", "-", "*", "/", ":", "**", "^", "%in%", "~", "|", "(", ")", "."]
SIGMA16 = [s for s in SIGMA if s not in ("c", "2", "^")]
SIGMA9 = ["a", "b", "1", "+", "-", ":", "*", "(", ")"]
AVAILABLE = ["y", "a", "b"]


def _untraced():
    try:
        from crosshair.tracers import NoTracing, is_tracing

        if is_tracing():
            return NoTracing()
    except Exception:
        pass
    import contextlib

    return contextlib.nullcontext()


def norm_terms(terms):
    return [tuple(sorted(f.expr for f in t.factors)) for t in terms]


def norm_structure(obj):
    from formulaic.utils.structured import Structured

    if isinstance(obj, Structured):
        return {k: norm_structure(v) for k, v in obj._structure.items()}
    if isinstance(obj, tuple):
        return tuple(norm_structure(v) for v in obj)
    return norm_terms(obj)


def observe(stream: str, include_intercept=True, flags=("TWOSIDED", "MULTIPART"), available=None):
    """-> ("ok", structure) | ("reject", exception type name)"""
    from formulaic.errors import FormulaParsingError
    from formulaic.formula import Formula, SimpleFormula
    from formulaic.parser import DefaultFormulaParser

    parser = DefaultFormulaParser(include_intercept=include_intercept, feature_flags=set(f.lower() for f in flags))
    ctx = {"__formulaic_variables_available__": list(available)} if available is not None else None
    try:
        f = Formula.from_spec(stream, parser=parser, context=ctx)
    except FormulaParsingError as e:
        return "reject", type(e).__name__
    except Exception as e:  # internal exception types are C14's subject; for C01 the stream was not accepted
        return "reject", type(e).__name__
    if isinstance(f, SimpleFormula):
        return "ok", {"root": norm_terms(f)}
    return "ok", norm_structure(f)


def _degree_sorted(o):
    """Order-insensitive among terms of the same degree (the order of ties inside a `**` expansion is not documented)."""
    if isinstance(o, dict):
        return {k: _degree_sorted(v) for k, v in o.items()}
    if isinstance(o, tuple):
        return tuple(_degree_sorted(v) for v in o)
    return sorted(o, key=lambda t: (0 if t == ("1",) else len(t), t))


def compare(symbols, include_intercept=True, flags=("TWOSIDED", "MULTIPART"), available=None, tie_order=True):
    """-> (verdict, detail): verdict in agree / dontcare / accepts-outside-grammar / rejects-inside-grammar / different-terms"""
    from oracle import wilkinson_ref as W

    with _untraced():  # the reference reading is not the code under test: run it outside CrossHair's tracer (inputs are concrete here)
        want = W.evaluate(list(symbols), include_intercept=include_intercept, twosided="TWOSIDED" in flags, multipart="MULTIPART" in flags, available=available)
    if want == W.DONTCARE:
        return "dontcare", None
    got = observe(" ".join(symbols), include_intercept, flags, available)
    if want == W.REJECT:
        if got[0] == "reject":
            return "agree", None
        return "accepts-outside-grammar", f"accepted as {got[1]}"
    if got[0] == "reject":
        return "rejects-inside-grammar", f"rejected with {got[1]}; the documented algebra gives {want}"
    if got[1] == want:
        return "agree", None
    if not tie_order and _degree_sorted(got[1]) == _degree_sorted(want):
        return "agree", None
    return "different-terms", f"library: {got[1]}; documented algebra: {want}"


def random_streams(seed: int, n: int, max_depth: int = 4):
    """Well-formed symbol streams derived from the grammar (nesting up to max_depth, 3..25 symbols), each followed by one
    single-symbol mutation of it (replace / insert / delete), which is usually ill-formed.  Deterministic in the seed."""
    import random

    rng = random.Random(seed)
    names, lits = ["a", "b", "c"], ["0", "1"]  # a bare 2 as an operand is a scaling literal: its flow through powers is not documented
    binops = ["+", "+", "-", "*", "/", ":", ":", "%in%", "**", "^"]

    def expr(d):
        k = rng.random()
        if d >= max_depth or k < 0.3:
            return [rng.choice(names if rng.random() < 0.85 else lits + ["."])]
        if k < 0.45:
            return ["("] + expr(d + 1) + [")"]
        if k < 0.52:
            return [rng.choice(["+", "-"])] + expr(d + 1)
        op = rng.choice(binops)
        if op in ("**", "^"):
            return ["("] + expr(d + 1) + [")", op, rng.choice(["1", "2", "2", "3"])]
        return expr(d + 1) + [op] + expr(d + 1)

    out = []
    while len(out) < n:
        parts = [expr(rng.randint(0, 2)) for _ in range(rng.choice([1, 1, 1, 2, 3]))]
        rhs = parts[0]
        for p in parts[1:]:
            rhs = rhs + ["|"] + p
        syms = (expr(2) + ["~"] + rhs) if rng.random() < 0.35 else rhs
        if not 3 <= len(syms) <= 25:
            continue
        out.append(syms)
        m = list(syms)
        pos = rng.randrange(len(m))
        how = rng.random()
        if how < 0.4:
            m[pos] = rng.choice(SIGMA)
        elif how < 0.75:
            m.insert(pos, rng.choice(SIGMA))
        else:
            del m[pos]
        out.append(m)
    return out


def scaled_cases(seed: int, n: int):
    """Formulas whose terms carry numeric scalings (`2:a`, `3:a:b`): [(formula text, intercept?, expected term list)].
    By construction: a scaling is not a factor of the interaction, so the final order is the stable sort by the number of
    NAMED factors (ties in first-appearance order), with the intercept first when there is one."""
    import random

    rng = random.Random(seed)
    out = []
    names = ["a", "b", "c", "d"]
    for _ in range(n):
        terms, seen = [], set()
        for _k in range(rng.randint(2, 5)):
            fs = sorted(rng.sample(names, rng.choice([1, 1, 2, 2, 3])))
            if tuple(fs) in seen:
                continue
            seen.add(tuple(fs))
            sc = rng.choice(["", "", "2", "3", "2.5"])
            terms.append((sc, fs))
        icpt = rng.random() < 0.6
        written = [":".join(([sc] if sc else []) + fs) for sc, fs in terms]
        text = ("" if icpt else "0 + ") + " + ".join(written)
        order = sorted(range(len(terms)), key=lambda i: len(terms[i][1]))
        out.append((text, icpt, (["1"] if icpt else []) + [written[i] for i in order]))
    return out


def scaled_check(text: str, expected: list, route: str):
    from formulaic.formula import Formula

    if route == "string":
        got = [str(t) for t in Formula.from_spec(text)]
    elif route == "rhs":
        got = [str(t) for t in Formula.from_spec("y ~ " + text).rhs]
    else:  # one part of a multi-part formula
        got = [str(t) for t in Formula.from_spec("y ~ z | " + text).rhs[1]]
    if got != expected:
        return f"scaled-term-order: formula {text!r} ({route}) gives {got}, ordering by interaction degree (a numeric scaling is no factor) gives {expected}"
    return None
