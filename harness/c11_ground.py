"""Engine-free part of C11 (ground facts about coding matrices)."""
from __future__ import annotations

import itertools

import numpy

from formulaic.transforms.contrasts import (DiffContrasts, HelmertContrasts, PolyContrasts, SASContrasts, SumContrasts, TreatmentContrasts)
from oracle import contrasts_ref as ref


def configs(n, labels):
    """(tag, Contrasts instance, reference reduced coding as float array or None if n<2, zero-sum?)"""
    out = []
    for b in range(n):
        out.append((f"treatment(base={labels[b]!r})", TreatmentContrasts(base=labels[b]), ref.as_float(ref.treatment(n, b)), False))
    out.append(("treatment()", TreatmentContrasts(), ref.as_float(ref.treatment(n, 0)), False))
    out.append(("SAS()", SASContrasts(), ref.as_float(ref.sas(n)), False))
    for b in range(n):
        out.append((f"SAS(base={labels[b]!r})", SASContrasts(base=labels[b]), ref.as_float(ref.sas(n, b)), False))
    out.append(("sum()", SumContrasts(), ref.as_float(ref.sum_(n)), True))
    for rev, sc in itertools.product((True, False), (True, False)):
        out.append((f"helmert(reverse={rev},scale={sc})", HelmertContrasts(reverse=rev, scale=sc), ref.as_float(ref.helmert(n, rev, sc)), True))
    for bw in (True, False):
        out.append((f"diff(backward={bw})", DiffContrasts(backward=bw), ref.as_float(ref.diff(n, bw)), True))
    out.append(("poly()", PolyContrasts(), ref.poly(n) if n >= 2 else numpy.zeros((n, 0)), True))
    if n >= 2:
        sc = [float(1 + k * (k + 1) // 2) for k in range(n)]
        out.append((f"poly(scores={sc})", PolyContrasts(scores=sc), ref.poly(n, sc), True))
        desc = list(reversed(sc))
        out.append((f"poly(scores={desc})", PolyContrasts(scores=desc), ref.poly(n, desc), True))
        if n >= 3:
            mixed = [sc[k] for k in ([1, n - 1, 0] + list(range(2, n - 1)))]  # non-monotone, last < first
            out.append((f"poly(scores={mixed})", PolyContrasts(scores=mixed), ref.poly(n, mixed), True))
    return out


def _ground(contr, labels, want, zero_sum, n):
    try:
        red = numpy.asarray(contr.get_coding_matrix(labels, reduced_rank=True), dtype=float).reshape((n, -1))
        full = numpy.asarray(contr.get_coding_matrix(labels, reduced_rank=False), dtype=float).reshape((n, -1))
        if red.shape != (n, n - 1):
            return f"wrong-shape: reduced coding is {red.shape}"
        if full.shape != (n, n) or not numpy.array_equal(full, numpy.eye(n)):
            return "full-coding-not-identity: full coding is not the identity"
        if not numpy.allclose(red, want, atol=1e-9):
            return f"not-standard: coding {red.tolist()} differs from the standard definition {numpy.asarray(want).tolist()}"
        if zero_sum and n > 1 and not numpy.allclose(red.sum(axis=0), 0, atol=1e-9):
            return f"nonzero-column-sums: {red.sum(axis=0)}"
        coef = numpy.asarray(contr.get_coefficient_matrix(labels, reduced_rank=True), dtype=float)
        if not numpy.allclose(coef @ numpy.hstack([numpy.ones((n, 1)), red]), numpy.eye(n), atol=1e-9):
            return "coefficient-not-inverse: coefficient matrix is not the inverse of [1|coding]"
        sp = contr.get_coding_matrix(labels, reduced_rank=True, sparse=True)
        if n > 1 and not numpy.allclose(numpy.asarray(sp.todense()), red, atol=1e-12):
            return "dense-sparse-differ: sparse coding differs from dense"
        names = list(contr.get_coding_column_names(labels, reduced_rank=True))
        if len(names) != n - 1 or len(contr.get_coding_column_names(labels, reduced_rank=False)) != n:
            return f"wrong-names: {names}"
    except Exception as e:
        return f"raised-{type(e).__name__}: {e}"
    return None


LABEL_TYPES = ("str", "int", "mixed", "zero-int", "empty-str")


def labels_for(n, ltype):
    """Level labels by type; 'zero-int' and 'empty-str' hold a FALSY label (0, '') away from the first and last position where n allows."""
    if ltype == "zero-int":
        return ([1, 0] + list(range(2, n)))[:n] if n >= 2 else [0]
    if ltype == "empty-str":
        return (["b", ""] + [f"c{k}" for k in range(2, n)])[:n] if n >= 2 else [""]
    return {"str": [f"l{k}" for k in range(n)], "int": list(range(10, 10 + n)), "mixed": [chr(ord("z") - k) for k in range(n)]}[ltype]


def ground_for(n, tag, ltype):
    labels = labels_for(n, ltype)
    for t, contr, want, zero_sum in configs(n, labels):
        if t == tag:
            return _ground(contr, labels, want, zero_sum, n)
    return None


def pipeline_specs():
    """(formula spelling of the categorical factor, closed-form reduced coding, levels in coding order) for the pipeline part."""
    levels = ["x", "y", "z"]
    return [
        ("C(A)", ref.as_float(ref.treatment(3, 0)), levels),
        ("C(A, contr.treatment(base='y'))", ref.as_float(ref.treatment(3, 1)), levels),
        ("C(A, contr.treatment('z'))", ref.as_float(ref.treatment(3, 2)), levels),
        ("C(A, contr.SAS)", ref.as_float(ref.sas(3)), levels),
        ("C(A, contr.sum)", ref.as_float(ref.sum_(3)), levels),
        ("C(A, contr.helmert)", ref.as_float(ref.helmert(3)), levels),
        ("C(A, contr.helmert(reverse=False, scale=True))", ref.as_float(ref.helmert(3, False, True)), levels),
        ("C(A, contr.diff)", ref.as_float(ref.diff(3)), levels),
        ("C(A, contr.diff(backward=False))", ref.as_float(ref.diff(3, False)), levels),
        ("C(A, contr.poly)", ref.poly(3), levels),
        ("C(A, levels=['z', 'x', 'y'])", ref.as_float(ref.treatment(3, 0)), ["z", "x", "y"]),
        ("C(A, contr.sum, levels=['y', 'z', 'x', 'w'])", ref.as_float(ref.sum_(4)), ["y", "z", "x", "w"]),
        ("C(A, contr.treatment, levels=['w', 'x', 'y', 'z'])", ref.as_float(ref.treatment(4, 0)), ["w", "x", "y", "z"]),
        # the other spellings a formula can use: patsy-compatible names, SAS with a base, poly with scores
        ("C(A, Treatment('y'))", ref.as_float(ref.treatment(3, 1)), levels),
        ("C(A, Sum)", ref.as_float(ref.sum_(3)), levels),
        ("C(A, Helmert)", ref.as_float(ref.helmert(3)), levels),
        ("C(A, Diff)", ref.as_float(ref.diff(3)), levels),
        ("C(A, Poly)", ref.poly(3), levels),
        ("C(A, contr.SAS(base='x'))", ref.as_float(ref.sas(3, 0)), levels),
        ("C(A, contr.poly(scores=[1, 2, 4]))", ref.poly(3, [1.0, 2.0, 4.0]), levels),
        # levels nominated WITHOUT one of the values present ('z' rows have an all-zero indicator: their coding row is zero)
        ("C(A, contr.sum, levels=['x', 'y'])", ref.as_float(ref.sum_(2)), ["x", "y"]),
        ("C(A, contr.helmert, levels=['y', 'x'])", ref.as_float(ref.helmert(2)), ["y", "x"]),
        ("C(A, contr.diff, levels=['x', 'y'])", ref.as_float(ref.diff(2)), ["x", "y"]),
        ("C(A, contr.poly, levels=['x', 'y'])", ref.poly(2), ["x", "y"]),
        ("C(A, levels=['y', 'x'])", ref.as_float(ref.treatment(2, 0)), ["y", "x"]),
    ]
