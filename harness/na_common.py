"""
Engine-free rig shared by C06 / C07 and their replays: frames with concrete null layouts, a tag column that
identifies rows, the four entry points, and the expected semantics of the three null policies.
"""

from __future__ import annotations

import itertools
from typing import Any, Optional

import numpy
import pandas

INDEX_KINDS = ["default", "string", "nonunique", "unsorted", "range-offset", "range-step"]
ENTRY_POINTS = ["model_matrix", "Formula.get_model_matrix", "ModelSpec.get_model_matrix", "materializer.get_model_matrix", "materializer.get_model_matrix#2"]
# "#2": the second build of ONE materializer object (the first one, of the same formula, is thrown away)


def make_index(kind: str, n: int):
    if kind == "default":
        return None
    if kind == "string":
        return [f"r{chr(ord('a') + k)}" for k in range(n)]
    if kind == "nonunique":
        return [["p", "q", "p", "q", "p", "q"][k] for k in range(n)]
    if kind == "unsorted":
        return [(7 * k + 3) % 11 for k in range(n)][::-1]
    if kind == "range-offset":  # still a RangeIndex, but not 0..n-1 (a sliced frame)
        return pandas.RangeIndex(10, 10 + n)
    if kind == "range-step":
        return pandas.RangeIndex(3, 3 + 2 * n, 2)
    raise ValueError(kind)


def make_frame(n: int, z_nulls: set, w_nulls: set, a_nulls: set, index_kind: str, tag=None) -> pandas.DataFrame:
    z = [numpy.nan if k in z_nulls else 10.0 + k for k in range(n)]
    w = [numpy.nan if k in w_nulls else 20.0 + 2 * k for k in range(n)]
    a = [None if k in a_nulls else ["x", "y"][k % 2] for k in range(n)]
    d = {"z": numpy.array(z, dtype=float), "w": numpy.array(w, dtype=float), "A": pandas.Categorical(a, categories=["x", "y"])}
    # the same null layouts in pandas' nullable extension dtypes (pd.NA instead of NaN)
    d["v"] = numpy.array([-1.0 if k in z_nulls else 2.0 + k for k in range(n)], dtype=float)  # never null itself; log / sqrt of it is
    d["q"] = pandas.array([pandas.NA if k in z_nulls else 30 + k for k in range(n)], dtype="Int64")
    d["f"] = pandas.array([pandas.NA if k in w_nulls else bool(k % 2) for k in range(n)], dtype="boolean")
    if tag is not None:
        d["t"] = numpy.asarray(tag, dtype=float)
    return pandas.DataFrame(d, index=make_index(index_kind, n))


# formula -> variables whose nulls matter (evaluated factors)
FORMULAS = {
    "t + z": {"z"},
    "t + z + w": {"z", "w"},
    "t + A": {"A"},
    "t ~ z": {"z"},
    "t ~ z | w": {"z", "w"},
    "t + hashed(A, levels=3) + z": {"z"},
    "t + C(A) + w": {"A", "w"},
    "t + z:A": {"z", "A"},
    "t + q": {"q"},
    "t ~ q + f": {"q", "f"},
    # a factor whose values arrive as a plain Python LIST through the context (null_handling has its own branch for lists)
    # nulls MADE by evaluation on a frame that holds no null at all (log of a negative number)
    "t + np.log(v)": {"v"},
    "t ~ np.log(v) | np.sqrt(v)": {"v"},
    "t + z + L": {"z"},
    "t ~ L + w | z": {"z", "w"},
}
L_VALUES = lambda n: [5.0 + 3.0 * k for k in range(n)]


def null_rows(formula_vars: set, z_nulls, w_nulls, a_nulls) -> set:
    out = set()
    if "z" in formula_vars:
        out |= set(z_nulls)
    if "w" in formula_vars:
        out |= set(w_nulls)
    if "A" in formula_vars:
        out |= set(a_nulls)
    if "q" in formula_vars or "v" in formula_vars:
        out |= set(z_nulls)
    if "f" in formula_vars:
        out |= set(w_nulls)
    return out


def expected(n: int, nulls: set, caller: Optional[set], na_action: str):
    """-> ("raise", None, None) or ("ok", kept positions, final caller set)."""
    caller_set = set(caller) if caller is not None else set()
    if na_action == "raise":
        if nulls:
            return "raise", None, None
        removed = set(caller_set)
    elif na_action == "ignore":
        removed = set(caller_set)
    else:
        removed = set(caller_set) | set(nulls)
    kept = [k for k in range(n) if k not in removed]
    return "ok", kept, removed


def build(entry: str, formula: str, data, ctx, drop_rows, na_action: str, output: str, override: bool, materializer=None):
    """Run one entry point. `override`: pass the output type as a call-time override of an existing spec/formula."""
    from formulaic import Formula, ModelSpec, model_matrix
    from formulaic.materializers import FormulaMaterializer

    kw = {} if drop_rows is None else {"drop_rows": drop_rows}
    if materializer and entry != "materializer.get_model_matrix":
        kw["materializer"] = materializer
    if entry == "model_matrix":
        return model_matrix(formula, data, context=ctx, na_action=na_action, output=output, **kw)
    if entry == "Formula.get_model_matrix":
        return Formula(formula).get_model_matrix(data, context=ctx, na_action=na_action, output=output, **kw)
    if entry == "ModelSpec.get_model_matrix":
        if override:
            spec = ModelSpec.from_spec(Formula(formula), na_action=na_action)
            return spec.get_model_matrix(data, context=ctx, output=output, **kw)
        spec = ModelSpec.from_spec(Formula(formula), na_action=na_action, output=output)
        return spec.get_model_matrix(data, context=ctx, **kw)
    if entry.startswith("materializer.get_model_matrix"):
        m = (FormulaMaterializer.for_materializer(materializer) if materializer else FormulaMaterializer.for_data(data))(data, context=ctx)
        if entry.endswith("#2"):
            try:
                m.get_model_matrix(formula, na_action="drop", output=output)
            except Exception:
                pass
        return m.get_model_matrix(formula, na_action=na_action, output=output, **kw)
    raise ValueError(entry)


def parts_of(mm) -> list:
    """Flatten a (possibly structured) result into [(path, ModelMatrix)]."""
    from formulaic.utils.structured import Structured

    if isinstance(mm, Structured):
        out = []
        mm._map(lambda m, ctx: out.append(("/".join(map(str, ctx)) or "root", m)))
        return out
    return [("root", mm)]


def part_frame(m, output):
    labels = list(m.model_spec.column_names)
    arr = numpy.asarray(m.todense() if output == "sparse" else m, dtype=object)
    if arr.ndim == 1:
        arr = arr.reshape((-1, len(labels)))
    return labels, arr


def check_config(cfg: dict, tag, tag_eq, ctx_for=lambda tag: None):
    """
    Run one configuration and compare with the expected policy semantics.
    Returns (problems, claims): problems = [(tag, message)] decided on concrete facts; claims = row-identity
    statements about tag cells (z3 terms when the tag is symbolic, bools otherwise).
    cfg keys: n, z_nulls, w_nulls, a_nulls, index, formula, na_action, caller (list|None), entry, output, override[, materializer]
    """
    n = cfg["n"]
    zs, ws, as_ = set(cfg["z_nulls"]), set(cfg["w_nulls"]), set(cfg["a_nulls"])
    ctx = ctx_for(tag)
    df = make_frame(n, zs, ws, as_, cfg["index"], tag=None if ctx is not None else tag)
    if FORMULAS[cfg["formula"]] == {"v"}:
        df = df.drop(columns=["z", "w", "A", "q", "f"])  # the frame itself is complete: every null of this build comes from evaluation
    if "L" in cfg["formula"]:
        ctx = {**(ctx or {}), "L": L_VALUES(n)}
    caller = None if cfg["caller"] is None else set(cfg["caller"])
    caller_arg = None if caller is None else set(caller)
    nulls = null_rows(FORMULAS[cfg["formula"]], zs, ws, as_)
    verdict, kept, removed = expected(n, nulls, caller, cfg["na_action"])
    problems, claims = [], []
    site = f"entry={cfg['entry']},override={cfg['override']},structured={'~' in cfg['formula']},index={cfg['index']},hashed={'hashed' in cfg['formula']}"
    try:
        mm = build(cfg["entry"], cfg["formula"], df, ctx, caller_arg, cfg["na_action"], cfg["output"], cfg["override"], cfg.get("materializer"))
    except Exception as e:
        if verdict == "raise" and isinstance(e, ValueError) and "null" in str(e).lower():
            return problems, claims
        problems.append((f"unexpected-{type(e).__name__}", f"{site}: raised {type(e).__name__}: {str(e)[:120]} (expected {'an error' if verdict == 'raise' else f'rows {kept}'})"))
        return problems, claims
    if verdict == "raise":
        problems.append(("no-raise", f"{site}: na_action='raise' returned although an evaluated factor has nulls at rows {sorted(nulls)}"))
        return problems, claims
    idx = df.index
    for path, m in parts_of(mm):
        labels, arr = part_frame(m, cfg["output"])
        if arr.shape[0] != len(kept):
            problems.append(("wrong-rows", f"{site}: part {path} has {arr.shape[0]} rows, expected rows {kept} (nulls {sorted(nulls)}, caller set {sorted(caller or [])}, policy {cfg['na_action']})"))
            continue
        if cfg["output"] == "pandas":
            got_idx = list(m.index)
            if got_idx != [idx[k] for k in kept]:
                problems.append(("wrong-index", f"{site}: part {path} index {got_idx}, expected the labels at positions {kept}: {[idx[k] for k in kept]}"))
        for j, lab in enumerate(labels):
            if lab == "t":
                for r, k in enumerate(kept):
                    claims.append((f"part {path} row {r} is input row {k}", tag_eq(arr[r, j], k)))
            elif lab == "L":
                got = [float(v) for v in arr[:, j]]
                want = [L_VALUES(n)[k] for k in kept]
                if not numpy.allclose(got, want):
                    problems.append(("wrong-rows", f"{site}: part {path} column L (a Python list from the context) holds {got}, rows {kept} hold {want}"))
            elif lab in ("z", "w"):
                want = [(10.0 + k) if lab == "z" else (20.0 + 2 * k) for k in kept]
                got = [float(v) for v in arr[:, j]]
                wn = [numpy.nan if (k in (zs if lab == "z" else ws)) else v for k, v in zip(kept, want)]
                if not numpy.allclose(got, wn, equal_nan=True):
                    problems.append(("wrong-rows", f"{site}: part {path} column {lab} holds {got}, rows {kept} hold {wn}"))
    if caller is not None and caller_arg != removed:
        problems.append(("drop-set", f"{site}: caller's drop set ended as {sorted(int(v) for v in caller_arg)}, removed positions are {sorted(removed)}"))
    return problems, claims
