"""placeholder until the CrossHair runner is built"""


def run(check):
    return None
