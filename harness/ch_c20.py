"""C20 term level / C09 _enforce_structure — CrossHair harnesses (CH-enum: bounded symbolic ints picked by explicit branching)."""
from typing import Any

from formulaic.errors import FactorEncodingError
from formulaic.formula import SimpleFormula
from formulaic.parser.types import Factor, Term
from formulaic.utils.calculus import differentiate_term


def _pick(x, lo, hi):
    for v in range(lo, hi):
        if x == v:
            return v
    return hi


POOL = ["a", "b", "c", "log(a)", "a:b"]
VARS = ["a", "b", "c", "d"]


def _term(mask):
    fs = [Factor(POOL[i]) for i in range(len(POOL)) if mask & (1 << i)]
    if not fs:
        fs = [Factor("1", eval_method="literal")]
    return Term(fs)


def _expected(mask, wrt):
    cur = [POOL[i] for i in range(len(POOL)) if mask & (1 << i)]
    for v in wrt:
        if v not in cur:
            return ["0"]
        cur = [f for f in cur if f != v]
    return cur or ["1"]


def dterm(mask: int, n: int, w1: int, w2: int) -> bool:
    """
    pre: 0 <= mask < 32 and 1 <= n <= 2 and 0 <= w1 < 4 and 0 <= w2 < 4 and mask % 4 == __SHARD__
    post: _
    """
    mask, n, w1, w2 = _pick(mask, 0, 31), _pick(n, 1, 2), _pick(w1, 0, 3), _pick(w2, 0, 3)
    wrt = [VARS[w1], VARS[w2]][:n]
    d = differentiate_term(_term(mask), wrt)
    return [f.expr for f in d.factors] == _expected(mask, wrt)


def dformula(m1: int, m2: int, m3: int, w1: int, o: int = 1) -> bool:
    """
    pre: 0 <= m1 < 8 and 0 <= m2 < 8 and 0 <= m3 < 8 and 0 <= w1 < 3 and 0 <= o < 3 and m1 == __SHARD__
    post: _
    """
    m1, m2, m3, w1, o = _pick(m1, 0, 7), _pick(m2, 0, 7), _pick(m3, 0, 7), _pick(w1, 0, 2), _pick(o, 0, 2)
    masks = [m1, m2, m3]
    # whatever ordering policy the source formula carries: the k-th term of the derivative is the derivative of ITS k-th term
    f = SimpleFormula([_term(m) for m in masks], _ordering=("degree", "none", "sort")[o])
    src = [[x.expr for x in t.factors if x.expr != "1"] for t in f]
    d = f.differentiate(VARS[w1])
    got = [sorted(x.expr for x in t.factors) for t in d]
    want = []
    for fs in src:
        if VARS[w1] not in fs:
            want.append(["0"])
        else:
            want.append(sorted(x for x in fs if x != VARS[w1]) or ["1"])
    if o == 1 and src != [[POOL[i] for i in range(len(POOL)) if m & (1 << i)] for m in masks]:
        return False
    return got == want  # same number and order of terms


# ------------------------------------------------------------------------------------------------ C09: _enforce_structure

_MAT = None


def _materializer():
    global _MAT
    if _MAT is None:
        from interface_meta import override

        from formulaic.materializers.base import FormulaMaterializer

        class _Unit(FormulaMaterializer):
            REGISTER_NAME = None

            @override
            def _init(self):
                pass

            @override
            def _encode_constant(self, value, metadata, encoder_state, spec, drop_rows):
                return ("const", value)

            @override
            def _encode_categorical(self, values, metadata, encoder_state, spec, drop_rows, reduced_rank=False):
                raise NotImplementedError

            @override
            def _encode_numerical(self, values, metadata, encoder_state, spec, drop_rows):
                raise NotImplementedError

            @override
            def _combine_columns(self, cols, spec, drop_rows):
                raise NotImplementedError

        _MAT = _Unit({}, {})
    return _MAT


GEN = ["p", "q", "r"]
REC = ["p", "q", "r", "s", "t", "u"]


def enforce(k: int, m: int, r1: int, r2: int, r3: int) -> bool:
    """
    pre: 0 <= k <= 3 and 0 <= m <= 3 and 0 <= r1 < 6 and 0 <= r2 < 6 and 0 <= r3 < 6 and k == __SHARD__
    post: _
    """
    from formulaic.materializers.base import EncodedTermStructure
    from formulaic.model_spec import ModelSpec

    k, m, r1, r2, r3 = _pick(k, 0, 3), _pick(m, 0, 3), _pick(r1, 0, 5), _pick(r2, 0, 5), _pick(r3, 0, 5)
    recorded = [REC[i] for i in (r1, r2, r3)[:m]]
    if len(set(recorded)) != len(recorded):
        return True  # recorded column names are distinct by construction of a spec
    generated = {name: ("col", name) for name in GEN[:k]}
    term = Term([Factor("x")])
    spec = ModelSpec(formula=[], structure=[EncodedTermStructure(term, [], list(recorded))])
    try:
        out = list(_materializer()._enforce_structure([(term, [], dict(generated))], spec, []))
    except FactorEncodingError:
        # allowed whenever the generated names are not exactly the recorded ones
        return set(generated) != set(recorded)
    except Exception:
        return False  # any other exception type escaping is a failure
    (t, _, cols), = out
    if list(cols) != recorded:  # exactly the recorded columns, in recorded order
        return False
    for name in recorded:
        if name in generated and len(generated) == len(recorded):
            if cols[name] != generated[name]:
                return False
        elif len(generated) == 0:
            if cols[name] != ("const", 0):  # documented imputation: an empty term becomes zero columns
                return False
        elif len(generated) == 1 and len(recorded) > 1:
            if cols[name] != next(iter(generated.values())):  # documented imputation: single column broadcast
                return False
        else:
            return False
    return True


def explain(fname, call):
    return f"{fname} fails for {call}"
