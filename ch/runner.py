"""
Engine CH driver: materialises a harness module (shard pinned in the precondition; reachability twin with negated
postcondition), runs one CrossHair process per (function, shard) on all cores, and folds the verdicts into a Check.

Harness conventions (harness/ch_*.py):
  * every harness function returns bool: True = the property holds for this input; its docstring has `post: _`
    (so a counterexample is an input for which the function returns False or raises).
  * `__SHARD__` in a `pre:` line is replaced by the shard value; the module attribute SHARDS[fname] lists the values.
  * the function must be deterministic and callable natively with the counterexample's arguments (replay).
"""
from __future__ import annotations

import ast
import concurrent.futures
import json
import os
import re
import subprocess
import sys
import tempfile
import time

from lib.common import VERIF, Check

PY = os.path.join(VERIF, ".venv", "bin", "python")


def _materialise(src: str, shard, twin: bool) -> str:
    s = src
    if isinstance(shard, dict):  # several placeholders: {"SHARD": 1, "LO": -3, ...} -> __SHARD__, __LO__, ...
        for k, v in shard.items():
            s = s.replace(f"__{k}__", repr(v))
    else:
        s = s.replace("__SHARD__", repr(shard))
    if twin:
        s = re.sub(r"^(\s*)post: _\s*$", r"\1post: not _", s, flags=re.M)
    return s


def _run_one(path, fname, pct, ppt, hard):
    t0 = time.time()
    try:
        p = subprocess.run([PY, "-m", "ch.worker", path, fname, str(pct), str(ppt)], cwd=VERIF, capture_output=True, text=True, timeout=hard,
                           env={**os.environ, "PYTHONHASHSEED": "0", "PYTHONDONTWRITEBYTECODE": "1"})
    except subprocess.TimeoutExpired:
        return {"function": fname, "messages": [{"state": "HARD_TIMEOUT", "message": f"killed after {hard}s", "line": 0}], "wall_s": time.time() - t0}
    for line in p.stdout.splitlines():
        if line.startswith("CHRESULT "):
            return json.loads(line[len("CHRESULT "):])
    return {"function": fname, "messages": [{"state": "CRASH", "message": (p.stderr or p.stdout)[-1500:], "line": 0}], "wall_s": time.time() - t0}


def parse_call(message: str):
    """'false when calling f(a=1, b="x")' -> dict of argument values (python literals)."""
    m = re.search(r"when calling (\w+)\((.*?)\)(?= \(which |$)", message, flags=re.S)
    if not m:
        return None
    try:
        call = ast.parse(f"f({m.group(2)})", mode="eval").body
        kw = {k.arg: ast.literal_eval(k.value) for k in call.keywords}
        return {"args": [ast.literal_eval(a) for a in call.args], "kwargs": kw}
    except Exception:
        return None


def run_module(check: Check, module: str, functions: dict, *, pct: float, ppt: float = 10.0, group: str = None, replay_kind: str = None, keyer=None, twins: bool = True, workers: int = None):
    """
    functions: {fname: [shard values] or [None]}
    Verdict per (function, shard): CONFIRMED -> obligation confirmed; POST_FAIL / EXEC_ERR -> counterexample, replayed natively by
    calling the harness function itself without tracing; CANNOT_CONFIRM / timeouts -> inconclusive.
    """
    import importlib

    src_path = os.path.join(VERIF, "harness", module + ".py")
    src = open(src_path).read()
    native = importlib.import_module(f"harness.{module}")
    tmp = tempfile.mkdtemp(prefix="ch_", dir=os.environ.get("TMPDIR", "/tmp"))
    jobs = []
    for fname, shards in functions.items():
        for si, sh in enumerate(shards):
            # one reachability twin per harness function (first shard): the shards differ only in the pinned value
            for twin in ((False, True) if (twins and si == 0) else (False,)):
                path = os.path.join(tmp, f"{module}_{fname}_{abs(hash(repr(sh))) % 10**9}_{'twin' if twin else 'main'}.py")
                with open(path, "w") as f:
                    f.write(_materialise(src, sh, twin))
                # twins only need to find ONE satisfying path: short budget
                jobs.append((fname, sh, twin, path, (pct if not twin else min(pct, 20.0)), ppt))
    t0 = time.time()
    n = workers or min(15, max(1, (os.cpu_count() or 2) - 1))
    results = []
    with concurrent.futures.ThreadPoolExecutor(n) as ex:
        futs = {ex.submit(_run_one, path, fname, p, pp, p * 1.5 + 60): (fname, sh, twin) for fname, sh, twin, path, p, pp in jobs}
        for fut in concurrent.futures.as_completed(futs):
            results.append((futs[fut], fut.result()))
    wall = time.time() - t0
    check.info["extra_solver_s"] = check.info.get("extra_solver_s", 0.0) + sum(r["wall_s"] for _, r in results)
    check.info["crosshair_processes"] = check.info.get("crosshair_processes", 0) + len(results)
    twin_ok = {}
    for (fname, sh, twin), r in results:
        states = [m["state"] for m in r["messages"]]
        if twin:
            ok = any(s in ("POST_FAIL", "EXEC_ERR", "POST_ERR") for s in states)
            twin_ok[(fname, repr(sh))] = ok
            check.obligation(f"{group or module}/{fname}/twin", "confirmed" if ok else "vacuous")
            if not ok:
                if any(s == "CONFIRMED" for s in states):
                    check.harness_error(f"{module}.{fname}[{sh}]: reachability twin was CONFIRMED - the harness never reaches its assertion (vacuous)")
                else:
                    check.inconclusive_note(f"{module}.{fname}[{sh}]: reachability twin inconclusive ({states})")
    for (fname, sh, twin), r in results:
        if twin:
            continue
        ident = f"{module}.{fname}[{sh}]"
        check.case(ident)
        grp = f"{group or module}/{fname}"
        for m in r["messages"]:
            st = m["state"]
            if st == "CONFIRMED":
                check.obligation(grp, "confirmed")
            elif st in ("POST_FAIL", "EXEC_ERR", "POST_ERR", "PRE_INVALID", "SYNTAX_ERR", "IMPORT_ERR"):
                call = parse_call(m["message"])
                rep = None
                if call is not None and st in ("POST_FAIL", "EXEC_ERR", "POST_ERR"):
                    try:
                        ok = getattr(native, fname)(*call["args"], **call["kwargs"])
                        rep = (ok is not True)
                    except Exception as e:
                        rep = True
                if rep:
                    key = keyer(fname, call) if keyer else f"{fname}({call})"
                    payload = {"kind": replay_kind or "ch_native", "module": module, "function": fname, "call": call}
                    check.obligation(grp, "refuted")
                    what = getattr(native, "explain", lambda f, c: m["message"])(fname, call)
                    check.violation(key, f"{what}", payload)
                elif st in ("PRE_INVALID", "SYNTAX_ERR", "IMPORT_ERR"):
                    check.harness_error(f"{ident}: {st}: {m['message'][:300]}")
                else:
                    check.obligation(grp, "unknown")
                    check.nonreproducing(f"{ident}: CrossHair counterexample does not reproduce natively: {m['message'][:300]}")
            elif st in ("CANNOT_CONFIRM", "PRE_UNSAT", "HARD_TIMEOUT"):
                check.obligation(grp, "unknown")
                check.inconclusive_note(f"{ident}: {st} {m['message'][:160]}")
            elif st == "CRASH":
                check.harness_error(f"{ident}: worker crashed: {m['message'][-600:]}")
        if not r["messages"]:
            check.harness_error(f"{ident}: CrossHair produced no verdict")
    import shutil

    shutil.rmtree(tmp, ignore_errors=True)
    return wall
