"""
Runs CrossHair on ONE harness function of ONE (materialised) module file and prints a JSON verdict.
usage: python -m ch.worker <file.py> <function> <per_condition_timeout_s> [per_path_timeout_s]
"""
import importlib.util
import json
import sys
import time


def main():
    path, fname, pct = sys.argv[1], sys.argv[2], float(sys.argv[3])
    ppt = float(sys.argv[4]) if len(sys.argv) > 4 else max(5.0, pct / 10)
    sys.path.insert(0, "/verif")
    spec = importlib.util.spec_from_file_location("ch_harness_" + fname, path)
    mod = importlib.util.module_from_spec(spec)
    sys.modules[spec.name] = mod
    spec.loader.exec_module(mod)
    fn = getattr(mod, fname)
    from crosshair.core_and_libs import analyze_function, run_checkables
    from crosshair.options import AnalysisOptionSet
    from crosshair.statespace import MessageType

    # CrossHair may "short-circuit" calls into functions that carry contracts (skip the body, invent a symbolic return
    # value, reconcile later).  The harnesses call only real code that must be executed, never summarised: disable it.
    import crosshair.core as _core

    _core.ShortCircuitingContext.make_interceptor = lambda self, original: original

    import os

    if os.environ.get("CH_DEBUG"):
        from crosshair.util import set_debug

        set_debug(True)
    opts = AnalysisOptionSet(per_condition_timeout=pct, per_path_timeout=ppt, report_all=True, max_uninteresting_iterations=10**9)
    t0 = time.time()
    msgs = list(run_checkables(analyze_function(fn, opts)))
    out = []
    for m in msgs:
        out.append({"state": m.state.name, "message": m.message, "line": m.line})
    print("CHRESULT " + json.dumps({"function": fname, "messages": out, "wall_s": round(time.time() - t0, 2)}))


if __name__ == "__main__":
    main()
