"""Fan independent cases of one check out over worker processes (fork), then merge their obligation counts."""
from __future__ import annotations

import multiprocessing
import os
import traceback

from .common import Check

_JOB = {}


def _work(i: int):
    check: Check = _JOB["check"]
    from sr import symreal

    for k in ("count", "checked", "agree", "other_unknown"):
        symreal.XCHECK[k] = 0
    symreal.XCHECK["disagree"] = []
    for k in list(symreal.STATS):
        symreal.STATS[k] = 0 if not isinstance(symreal.STATS[k], float) else 0.0
    sub = Check(check.pid, check.tier, check.seed)
    sub.quiet = True
    sub.replay_prefix = f"w{i:02d}_"
    sub.info = {k: ({} if isinstance(v, dict) else v) for k, v in check.info.items() if isinstance(v, dict)}
    cases = _JOB["cases"][i :: _JOB["n"]]
    for k, case in enumerate(cases):
        try:
            _JOB["worker"](sub, case, record=(i == 0 and k < _JOB["record_first"]))
        except Exception:
            sub.harness_error(f"case {case!r} crashed: {traceback.format_exc()[-1500:]}")
    return sub.export()


def run_cases(check: Check, cases: list, worker, nproc: int | None = None, record_first: int = 8) -> None:
    """worker(check, case, record: bool).  Cases are dealt round-robin to the workers."""
    n = nproc or min(14, max(1, (os.cpu_count() or 2) - 2))
    n = max(1, min(n, len(cases)))
    _JOB.update(check=check, cases=cases, worker=worker, n=n, record_first=record_first)
    if n == 1:
        res = [_work(0)]
    else:
        ctx = multiprocessing.get_context("fork")
        with ctx.Pool(n) as pool:
            res = pool.map(_work, range(n), chunksize=1)
    for d in res:
        check.merge(d)
