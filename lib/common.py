"""Shared plumbing: obligations, evidence, known findings, replay files, exit codes."""

from __future__ import annotations

import json
import os
import sys
import time
from typing import Any, Optional

VERIF = os.path.dirname(os.path.dirname(os.path.abspath(__file__)))
EXIT_OK, EXIT_VIOLATION, EXIT_HARNESS = 0, 1, 3


def jsonable(x: Any) -> Any:
    try:
        json.dumps(x)
        return x
    except Exception:
        if isinstance(x, dict):
            return {str(k): jsonable(v) for k, v in x.items()}
        if isinstance(x, (list, tuple, set, frozenset)):
            return [jsonable(v) for v in x]
        return repr(x)


class HarnessError(Exception):
    """The machinery itself is wrong or was used outside what it models (exit 3, never a verdict)."""


class Check:
    """
    One run of one property's check.

    * `obligation(group, status)` counts a solver obligation (status in proved / refuted / unknown / ground).
    * `violation(key, what, payload)` records a counterexample that REPRODUCED natively (callers replay first);
      it is matched against known_findings.json by exact `key`.
    """

    def __init__(self, pid: str, tier: str, seed: int):
        self.pid, self.tier, self.seed = pid, tier, seed
        self.t0 = time.time()
        self.groups: dict[str, dict[str, int]] = {}
        self.samples: list[Any] = []
        self.violations: list[dict] = []
        self.known_hits: list[dict] = []
        self.inconclusive: list[str] = []
        self.info: dict[str, Any] = {}
        self.functions: set[str] = set()
        self.stubs: set[str] = set()
        self.assumptions: list[str] = []
        self.bounds: dict[str, Any] = {}
        self.out_of_scope: list[str] = []
        self.cases: set[str] = set()
        self.evaluations = 0
        self.harness_errors: list[str] = []
        self.nonrepro: list[str] = []
        self.known = [
            k for k in json.load(open(os.path.join(VERIF, "known_findings.json")))["findings"] if k["property"] == pid
        ]
        self._printed_known: set[str] = set()
        self.lines: list[str] = []
        self.quiet = False
        self.replay_prefix = ""

    def _emit(self, line: str) -> None:
        if self.quiet:
            self.lines.append(line)
        else:
            print(line, flush=True)

    # ------------------------------------------------------------------ counting
    def obligation(self, group: str, status: str, n: int = 1) -> None:
        g = self.groups.setdefault(group, {})
        g[status] = g.get(status, 0) + n

    def case(self, ident: str, nontrivial: bool = True) -> None:
        """A distinct explored case (configuration / path / input class)."""
        self.evaluations += 1
        if nontrivial:
            self.cases.add(ident)

    def sample(self, s: Any, cap: int = 12) -> None:
        if len(self.samples) < cap:
            self.samples.append(jsonable(s))

    def inconclusive_note(self, what: str) -> None:
        if len(self.inconclusive) < 200:
            self.inconclusive.append(what)
        self._emit(f"INCONCLUSIVE property={self.pid} {what}")

    def nonreproducing(self, what: str) -> None:
        """A solver counterexample that the native replay did not confirm: never a VIOLATION; harness error unless
        another counterexample of this run did reproduce (then the run already fails with exit 1)."""
        self.nonrepro.append(what)
        self._emit(f"NON-REPRODUCING property={self.pid} {what}")

    def harness_error(self, what: str) -> None:
        self.harness_errors.append(what)
        self._emit(f"HARNESS-ERROR property={self.pid} {what}")

    # ------------------------------------------------------------------ violations
    def violation(self, key: str, what: str, payload: dict) -> None:
        for k in self.known:
            if k.get("status") == "open" and k["key"] == key:
                if key not in self._printed_known:
                    self._printed_known.add(key)
                    self._emit(f"KNOWN-FINDING: property={self.pid} {k['what']} [{key}]")
                    self.known_hits.append({"key": key, "what": k["what"]})
                return
        if any(v["key"] == key for v in self.violations):
            return
        d = os.path.join(os.environ.get("VERIF_REPLAY_DIR") or os.path.join(VERIF, "replays"), self.pid)
        os.makedirs(d, exist_ok=True)
        path = os.path.join(d, f"{self.replay_prefix}{len(self.violations):03d}.json")
        with open(path, "w") as f:
            json.dump({"property": self.pid, "key": key, "what": what, "payload": jsonable(payload)}, f, indent=1)
        self.violations.append({"key": key, "what": what, "replay": path})
        self._emit(f"VIOLATION property={self.pid} replay={path}")
        self._emit(f"  key={key} :: {what}")

    # ------------------------------------------------------------------ parallel workers
    def export(self) -> dict:
        from sr import symreal

        return {
            "groups": self.groups, "samples": self.samples, "violations": self.violations, "known_hits": self.known_hits,
            "inconclusive": self.inconclusive, "functions": sorted(self.functions), "stubs": sorted(self.stubs),
            "cases": sorted(self.cases), "evaluations": self.evaluations, "harness_errors": self.harness_errors,
            "nonrepro": self.nonrepro, "lines": self.lines, "stats": dict(symreal.STATS), "info": jsonable(self.info), "xcheck": dict(symreal.XCHECK),
        }

    def merge(self, d: dict) -> None:
        from sr import symreal

        for g, st in d["groups"].items():
            for k, v in st.items():
                self.obligation(g, k, v)
        for smp in d["samples"]:
            self.sample(smp)
        seen_v = {v["key"] for v in self.violations}
        for v in d["violations"]:
            if v["key"] not in seen_v:
                self.violations.append(v)
                seen_v.add(v["key"])
        for k in d["known_hits"]:
            if k["key"] not in {h["key"] for h in self.known_hits}:
                self.known_hits.append(k)
        self.inconclusive += d["inconclusive"]
        self.functions.update(d["functions"])
        self.stubs.update(d["stubs"])
        self.cases.update(d["cases"])
        self.evaluations += d["evaluations"]
        self.harness_errors += d["harness_errors"]
        self.nonrepro += d["nonrepro"]
        for k, v in d["stats"].items():
            symreal.STATS[k] = symreal.STATS.get(k, 0) + v
        for k, v in d.get("xcheck", {}).items():
            if k == "disagree":
                symreal.XCHECK["disagree"] += v
            elif k != "every":
                symreal.XCHECK[k] += v
        for k, v in d["info"].items():
            if isinstance(v, dict) and isinstance(self.info.get(k), dict) and all(isinstance(x, int) for x in v.values()):
                for kk, vv in v.items():
                    self.info[k][kk] = self.info[k].get(kk, 0) + vv
            elif k not in self.info:
                self.info[k] = v
        printed = getattr(self, "_printed_lines", set())
        skip_next = False
        for line in d["lines"]:
            if line.startswith("  key=") and skip_next:
                continue
            skip_next = False
            if line.startswith(("KNOWN-FINDING", "VIOLATION")):
                tag = line if line.startswith("KNOWN") else None
                if tag and tag in printed:
                    continue
                if tag:
                    printed.add(tag)
            print(line, flush=True)
        self._printed_lines = printed

    # ------------------------------------------------------------------ finish
    def finish(self) -> int:
        from sr import symreal

        wall = time.time() - self.t0
        xc = dict(symreal.XCHECK)
        if xc.get("disagree"):
            self.harness_error(f"second solver (z3 4.8.12) disagrees with z3 5.x on {len(xc['disagree'])} sampled obligation(s)")
        ob = sum(sum(g.values()) for g in self.groups.values())
        discharged = sum(g.get("proved", 0) + g.get("ground", 0) + g.get("confirmed", 0) + g.get("identical-terms-or-ground", 0) for g in self.groups.values())
        by_solver = sum(g.get("proved", 0) + g.get("confirmed", 0) for g in self.groups.values())
        unknown = sum(g.get("unknown", 0) for g in self.groups.values())
        cov = {
            "explanation": self.info.get("explanation", ""),
            "evaluations": max(self.evaluations, 1),
            "distinct_nontrivial": len(self.cases),
            "rule": self.info.get("rule", ""),
            "samples": self.samples or ["(none)"],
            "obligations": ob,
            "discharged": discharged,
            "discharged_by_solver_verdict": by_solver,
            "inconclusive": unknown,
            "inconclusive_notes": self.inconclusive[:50],
            "obligation_groups": self.groups,
            "functions_encoded": sorted(self.functions),
            "bounds": self.bounds,
            "outside_the_claim": self.out_of_scope,
            "stubs": sorted(self.stubs),
            "solver_queries": symreal.STATS["queries"] + int(self.info.get("extra_queries", 0)),
            "solver_time_s": round(symreal.STATS["solver_s"] + float(self.info.get("extra_solver_s", 0.0)), 3),
            "second_solver_cross_check": {k: (v if k != "disagree" else v[:3]) for k, v in xc.items()},
            "known_findings_hit": self.known_hits,
            "nonreproducing_counterexamples": self.nonrepro[:20],
            "harness_errors": self.harness_errors[:20],
            "exhaustive": bool(self.info.get("exhaustive", False)),
        }
        for k, v in self.info.items():
            if k not in ("explanation", "rule", "exhaustive", "extra_queries", "extra_solver_s"):
                cov[k] = jsonable(v)
        ev = {
            "property_id": self.pid,
            "tier": self.tier,
            "seed": self.seed,
            "level": "other",
            "coverage": cov,
            "assumptions": self.assumptions,
            "wall_s": round(wall, 2),
            "violations": len(self.violations),
        }
        evdir = os.environ.get("VERIF_EVIDENCE_DIR") or os.path.join(VERIF, "evidence")  # (mutation runs write elsewhere)
        os.makedirs(evdir, exist_ok=True)
        with open(os.path.join(evdir, f"{self.pid}.json"), "w") as f:
            json.dump(ev, f, indent=1)
        print(
            f"{self.pid} tier={self.tier} obligations={ob} discharged={discharged} inconclusive={unknown} inconclusive_notes={len(self.inconclusive)} "
            f"cases={len(self.cases)} violations={len(self.violations)} known={len(self.known_hits)} "
            f"solver_q={cov['solver_queries']} solver_s={cov['solver_time_s']} wall={wall:.1f}s",
            flush=True,
        )
        if self.violations:
            return EXIT_VIOLATION
        if self.harness_errors or self.nonrepro:
            return EXIT_HARNESS
        return EXIT_OK


class FunctionRecorder:
    """Records every formulaic.* function entered while active (evidence: functions encoded)."""

    def __init__(self, sink: set):
        self.sink = sink

    def __enter__(self):
        def prof(frame, event, arg):
            if event == "call":
                fn = frame.f_code.co_filename
                if "/formulaic/" in fn:
                    mod = fn.split("/formulaic/", 1)[1][:-3].replace("/", ".")
                    self.sink.add(f"formulaic.{mod}:{frame.f_code.co_qualname}")

        self._old = sys.getprofile()
        sys.setprofile(prof)
        return self

    def __exit__(self, *a):
        sys.setprofile(self._old)
