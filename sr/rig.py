"""Glue between the SR engine and lib.common.Check: explore paths, discharge claims, vacuity twins, replay."""

from __future__ import annotations

from typing import Any, Callable, Iterable, Optional

import z3

from lib.common import Check, FunctionRecorder
from . import npproxy
from .symreal import PathManager, _timed_check, model_value, prove, satisfiable

Claim = tuple[str, Any]  # (label, z3 BoolRef)


def run_sym(
    check: Check,
    group: str,
    fn: Callable[[], Any],
    claims: Callable[[Any], Iterable[Claim]],
    *,
    pre: Iterable[Any] = (),
    on_exception: Optional[Callable[[BaseException, list], Iterable[Claim]]] = None,
    expect_exception: Optional[Callable[[BaseException], bool]] = None,
    replay: Optional[Callable[[z3.ModelRef, str], Optional[tuple[str, str, dict]]]] = None,
    logic: Optional[str] = "QF_NRA",
    timeout_ms: int = 10000,
    max_paths: int = 2000,
    case_id: Optional[str] = None,
    sample: Any = None,
    record: bool = True,
) -> dict:
    """
    Explore every feasible path of `fn` (which builds its own symbolic inputs and calls the real code), and on
    each path discharge `claims(result)` under the path condition.

    replay(model, label) -> None if the counterexample does not reproduce natively, else (key, what, payload).
    Exceptions raised by the code under test: if `on_exception` is given it maps the exception to claims
    (e.g. "this path must be infeasible" = claim False); otherwise an unexpected exception is a harness error
    unless `expect_exception(e)` accepts it.
    """
    pm = PathManager(precondition=list(pre), max_paths=max_paths, timeout_ms=min(timeout_ms, 5000), budget_s=(120.0 if timeout_ms <= 10000 else 900.0))
    stats = {"paths": 0, "proved": 0, "refuted": 0, "unknown": 0, "vacuous": 0}
    if record:
        with FunctionRecorder(check.functions):
            paths = list(pm.explore(fn))
    else:
        paths = list(pm.explore(fn))
    first = True
    nonrepro_here = 0
    for kind, res, pc in paths:
        if nonrepro_here >= 5:
            # five counterexamples of this case in a row failed to reproduce natively: an artefact of the encoding, not of the code;
            # the remaining paths would add the same report at ~10 s apiece.  The case is reported as not decided.
            check.inconclusive_note(f"{group}: stopped after 5 non-reproducing counterexamples (case {case_id})")
            break
        stats["paths"] += 1
        if kind == "exc":
            if on_exception is not None:
                cl = list(on_exception(res, pc))
            elif expect_exception is not None and expect_exception(res):
                cl = []
            else:
                # The code under test raised on symbolic input.  If the native replay (generic concrete inputs) shows a
                # violation, it is one; otherwise the engine hit something it does not model (harness error).
                rep = None
                if replay is not None:
                    try:
                        with npproxy.native():
                            rep = replay(None, f"raised {type(res).__name__}")
                    except Exception:
                        rep = None
                if rep is not None:
                    key, what, payload = rep
                    tag = what.split(":", 1)[0].strip() if ":" in what else what[:40]
                    check.obligation(group, "refuted")
                    check.violation(f"{key}::{tag}", what, payload)
                    continue
                import traceback

                tb = "".join(traceback.format_exception(res)[-6:])
                check.harness_error(f"{group}: code under test raised {type(res).__name__}: {res}\n{tb}")
                continue
        else:
            cl = list(claims(res))
        # vacuity twin: the path condition must be satisfiable, i.e. `False` must be refuted here
        v = _twin(pc, logic, timeout_ms)
        if v == "proved":
            stats["vacuous"] += 1
            check.obligation(group + "/twin", "vacuous")
            continue
        check.obligation(group + "/twin", "confirmed" if v == "refuted" else "unknown")
        for label, claim in cl:
            if isinstance(claim, bool):
                claim = z3.BoolVal(claim)
            st, model = None, None
            if z3.is_true(claim):
                st = "proved"  # ground fact established by the harness on the realised objects of this path
            elif z3.is_false(claim) and v != "refuted":
                st = "unknown"  # a false ground fact on a path whose feasibility the solver could not establish
            if st is None and z3.is_implies(claim):
                # cheap pre-filter: an implication whose antecedent contradicts the path condition holds trivially
                r, _ = satisfiable(list(pc) + [claim.arg(0)], logic=None, timeout_ms=2000)
                if r == "unsat":
                    st = "proved"
            if st is None and z3.is_false(claim):
                st, model = "refuted", _witness(pc, logic, timeout_ms)
            if st is None:
                st, model = prove(claim, pc, logic=logic, timeout_ms=timeout_ms)
            stats[st] += 1
            # honesty of the counts: a claim that was already `true` when it reached the solver (ground fact of the harness, or
            # cell-by-cell identity of structurally identical terms) is counted apart from solver-discharged obligations
            check.obligation(group, "identical-terms-or-ground" if (st == "proved" and z3.is_true(claim)) else st)
            if first and sample is not None:
                check.sample({"group": group, "case": sample, "obligation": label, "path_condition_size": len(pc), "status": st})
                first = False
            if st == "unknown":
                check.inconclusive_note(f"{group}: {label} (case {case_id})")
            if st == "refuted":
                rep = None
                if replay:
                    # prefer counterexamples with small integer inputs: they replay exactly in float64
                    for m in _nice_models(claim, pc, model):
                        with npproxy.native():
                            rep = replay(m, label)
                        if rep is not None:
                            break
                if rep is None:
                    nonrepro_here += 1
                    check.nonreproducing(f"{group}: counterexample for '{label}' (case {case_id}) did not reproduce natively: {str(model)[:300]}")
                else:
                    key, what, payload = rep
                    # convention: a replay message starts with a stable symptom tag "tag: details"; the finding key
                    # is "<case class>::<tag>" so that a different symptom in the same configuration is a new finding
                    tag = what.split(":", 1)[0].strip() if ":" in what else what[:40]
                    check.violation(f"{key}::{tag}", what, payload)
    if pm.truncated:
        check.inconclusive_note(f"{group}: path or time budget exhausted after {pm.paths} paths (case {case_id})")
    if stats["paths"] == 0 or stats["vacuous"] == stats["paths"]:
        check.harness_error(f"{group}: no feasible path reached the assertion (case {case_id})")
    check.stubs.update(npproxy.HITS)
    if case_id is not None:
        check.case(case_id)
    stats["domain_obligations"] = len(pm.domain_obligations)
    return stats


def _free_inputs(pc):
    seen, out, todo = set(), [], list(pc)
    while todo:
        e = todo.pop()
        if e.get_id() in seen:
            continue
        seen.add(e.get_id())
        if z3.is_const(e) and e.decl().kind() == z3.Z3_OP_UNINTERPRETED and z3.is_real(e):
            if not e.decl().name().startswith("__"):
                out.append(e)
        else:
            todo.extend(e.children())
    return sorted(out, key=lambda v: v.decl().name())


def _twin(pc, logic, timeout_ms):
    """Reachability twin: is the path condition satisfiable (i.e. would `assert False` here be violated)?
    First try to exhibit a witness with the inputs pinned to a generic rational point (cheap even when the path
    condition carries sqrt / division side conditions); fall back to the general query."""
    if not pc:
        return "refuted"
    inputs = _free_inputs(pc)
    if inputs:
        for salt in (0, 1):
            pins = [v == z3.RealVal(f"{(37 * (i + 1) + 11 * salt) % 23 - 9}/{2 + ((i + salt) % 3)}") for i, v in enumerate(inputs)]
            r, _ = satisfiable(list(pc) + pins, logic=logic, timeout_ms=1500)
            if r == "sat":
                return "refuted"
    v, _ = prove(z3.BoolVal(False), pc, logic=logic, timeout_ms=min(timeout_ms, 3000))
    return v


def _witness(pc, logic, timeout_ms):
    r, m = satisfiable(list(pc), logic=logic, timeout_ms=min(timeout_ms, 3000))
    return m


def _nice_models(claim, pc, model):
    if model is None:
        return
    """Yield candidate counterexample models: integer-valued inputs in shrinking boxes first, the solver's own model last."""
    inputs = [d for d in model.decls() if d.arity() == 0 and not d.name().startswith("__")]
    for box in (3, 8, 40):
        s = z3.Solver()
        s.set("timeout", 3000)
        for c in pc:
            s.add(c)
        s.add(z3.Not(claim))
        for d in inputs:
            v = d()
            if z3.is_real(v):
                s.add(z3.IsInt(v), v >= -box, v <= box)
        if _timed_check(s, hard_ms=4000) == "sat":  # z3's own timeout is not always honoured: watchdog
            yield s.model()
    yield model


def floats_from_model(model: z3.ModelRef, names: list[str]) -> list[float]:
    return [model_value(model, z3.Real(n)) for n in names]
