"""
Stubs for the handful of numpy routines that have no object-dtype loop.

A formulaic module's global name ``numpy`` (or ``np``) is rebound, for the
duration of a symbolic run, to a forwarding proxy that overrides exactly the
routines listed in OVERRIDES; everything else is the real numpy.  No formulaic
source is edited.  Every override that is actually *hit* during a run is
recorded in `HITS` and reported in the evidence file as a stub.
"""

from __future__ import annotations

import contextlib
import math
import sys
import types

import numpy

from .symreal import SBool, SReal, SymArray

HITS: set[str] = set()


def _has_sym(a) -> bool:
    if isinstance(a, (SReal, SBool)):
        return True
    if isinstance(a, numpy.ndarray):
        return a.dtype == object and any(isinstance(v, (SReal, SBool)) for v in a.flat)
    if isinstance(a, (list, tuple)):
        return any(_has_sym(v) for v in a)
    return False


def _array(obj, dtype=None, *args, **kwargs):
    if dtype is not None and _has_sym(obj) and numpy.dtype(dtype).kind == "f":
        HITS.add("numpy.array(dtype=float64) keeps symbolic elements (object dtype)")
        return numpy.array(obj, dtype=object)
    return numpy.array(obj, dtype, *args, **kwargs)


def _asarray(obj, dtype=None, *args, **kwargs):
    if dtype is not None and _has_sym(obj) and numpy.dtype(dtype).kind == "f":
        HITS.add("numpy.asarray(dtype=float64) keeps symbolic elements (object dtype)")
        return numpy.asarray(obj, dtype=object)
    return numpy.asarray(obj, dtype, *args, **kwargs)


_SYMBOLIC_BUFFERS = True


def _empty(shape, dtype=float, *args, **kwargs):
    if numpy.dtype(dtype).kind == "f":
        HITS.add("numpy.empty(float) -> object buffer (symbolic values are stored into it later)")
        return numpy.empty(shape, dtype=object)
    return numpy.empty(shape, dtype, *args, **kwargs)


def _zeros(shape, dtype=float, *args, **kwargs):
    if numpy.dtype(dtype).kind == "f":
        HITS.add("numpy.zeros(float) -> object buffer of 0")
        out = numpy.empty(shape, dtype=object)
        out.fill(0)
        return out
    return numpy.zeros(shape, dtype, *args, **kwargs)


def _ones(shape, dtype=float, *args, **kwargs):
    return numpy.ones(shape, dtype, *args, **kwargs)


def _isnan_scalar(v) -> bool:
    if isinstance(v, (SReal, SBool)):
        return False
    if v is None:
        return False
    try:
        return math.isnan(v)
    except TypeError:
        return False


def _isnan(x, *args, **kwargs):
    if isinstance(x, (SReal, SBool)):
        HITS.add("numpy.isnan on symbolic values: a real is never NaN; concrete NaN recognised")
        return False
    if isinstance(x, numpy.ndarray) and x.dtype == object:
        HITS.add("numpy.isnan on symbolic values: a real is never NaN; concrete NaN recognised")
        out = numpy.empty(x.shape, dtype=bool)
        for idx in numpy.ndindex(x.shape):
            out[idx] = _isnan_scalar(x[idx])
        return out
    return numpy.isnan(x, *args, **kwargs)


def _power(x, k, *args, **kwargs):
    # numpy.power on object arrays calls __pow__/__rpow__ elementwise already; forwarded unchanged
    return numpy.power(x, k, *args, **kwargs)


def _sqrt(x, *args, **kwargs):
    # numpy.sqrt on an object array needs a .sqrt() method on EVERY element; plain Python numbers mixed in have none
    if isinstance(x, numpy.ndarray) and x.dtype == object and not args and not kwargs:
        HITS.add("numpy.sqrt on object arrays: elementwise (.sqrt() of symbolic terms, math.sqrt of plain numbers)")
        out = numpy.empty(x.shape, dtype=object)
        for idx in numpy.ndindex(x.shape):
            v = x[idx]
            out[idx] = v.sqrt() if hasattr(v, "sqrt") else math.sqrt(v)
        return out
    return numpy.sqrt(x, *args, **kwargs)


OVERRIDES = {
    "sqrt": _sqrt,
    "array": _array,
    "asarray": _asarray,
    "empty": _empty,
    "zeros": _zeros,
    "isnan": _isnan,
}


_NATIVE = [0]


@contextlib.contextmanager
def native():
    """Suspend every override (native replays of counterexamples must see the real numpy even inside a patched region)."""
    _NATIVE[0] += 1
    try:
        yield
    finally:
        _NATIVE[0] -= 1


class NumpyProxy(types.ModuleType):
    def __init__(self, overrides=None):
        super().__init__("numpy")
        self.__dict__["_ov"] = dict(OVERRIDES if overrides is None else overrides)

    def __getattr__(self, name):
        ov = self.__dict__["_ov"]
        if name in ov and not _NATIVE[0]:
            return ov[name]
        return getattr(numpy, name)


@contextlib.contextmanager
def patched_numpy(*module_names: str, overrides=None, attr_names=("numpy", "np")):
    """Rebind the global `numpy`/`np` of the named (already imported) modules to the proxy."""
    proxy = NumpyProxy(overrides)
    saved = []
    for mn in module_names:
        mod = sys.modules[mn]
        for an in attr_names:
            if an in mod.__dict__ and (mod.__dict__[an] is numpy):
                saved.append((mod, an))
                setattr(mod, an, proxy)
    try:
        yield proxy
    finally:
        for mod, an in saved:
            setattr(mod, an, numpy)
