"""
Engine SR: symbolic reals that flow through the *real* numpy / pandas / formulaic code.

`SReal` wraps a z3 Real term.  numpy's ``dtype=object`` loops call Python dunder
methods (and, for unary ufuncs, methods of the same name: ``sqrt``, ``exp`` ...)
on every element, so unmodified library code computes on z3 terms.

Comparisons return `SBool`; ``bool(SBool)`` asks the active `PathManager`, which
decides feasibility of both outcomes with z3 and explores them depth-first by
re-running the function under test (decision-prefix replay).
"""

from __future__ import annotations

import math
import time
from fractions import Fraction
from typing import Any, Callable, Optional

import numpy
import z3

# ----------------------------------------------------------------------------
# statistics shared by every harness (solver calls / time)

STATS = {"queries": 0, "solver_s": 0.0, "feasibility_queries": 0, "unknown": 0}


def _timed_check(solver: z3.Solver, *assumptions, hard_ms: Optional[int] = None) -> str:
    """solver.check with a watchdog: z3's own timeout is not always honoured inside nlsat, so a timer interrupts the
    context a little after the soft timeout; an interrupted check answers `unknown`."""
    import threading

    t0 = time.time()
    timer = None
    if hard_ms:
        timer = threading.Timer(hard_ms / 1000.0, solver.ctx.interrupt)
        timer.daemon = True
        timer.start()
    try:
        r = solver.check(*assumptions)
    except z3.Z3Exception:
        r = z3.unknown
    finally:
        if timer is not None:
            timer.cancel()
    STATS["queries"] += 1
    STATS["solver_s"] += time.time() - t0
    s = str(r)
    if s == "unknown":
        STATS["unknown"] += 1
    return s


# ----------------------------------------------------------------------------
# lifting


def _is_num(x: Any) -> bool:
    return isinstance(x, (int, float, Fraction, numpy.integer, numpy.floating)) and not isinstance(x, bool) or isinstance(x, (bool, numpy.bool_))


def to_z3(x: Any) -> z3.ArithRef:
    if isinstance(x, SReal):
        return x.e
    if isinstance(x, SBool):
        return z3.If(x.e, z3.RealVal(1), z3.RealVal(0))
    if isinstance(x, (bool, numpy.bool_)):
        return z3.RealVal(1 if x else 0)
    if isinstance(x, (int, numpy.integer)):
        return z3.RealVal(int(x))
    if isinstance(x, Fraction):
        return z3.RealVal(f"{x.numerator}/{x.denominator}")
    if isinstance(x, (float, numpy.floating)):
        f = float(x)
        if math.isnan(f) or math.isinf(f):
            raise NonFinite(f)
        fr = Fraction(f)
        return z3.RealVal(f"{fr.numerator}/{fr.denominator}")
    raise TypeError(f"cannot lift {type(x)!r} to a real term")


class NonFinite(Exception):
    def __init__(self, value: float):
        super().__init__(value)
        self.value = value


class SymbolicDomainError(Exception):
    """An operation was applied outside the domain the engine models."""


# ----------------------------------------------------------------------------
# path manager


class Abort(BaseException):
    """Raised to abandon the current path (infeasible / over budget)."""


class PathManager:
    """
    Depth-first exploration of the branches taken on symbolic booleans.

    `explore(fn)` calls `fn()` once per feasible path; `fn` must rebuild all its
    symbolic inputs itself (names must be deterministic so that the terms are
    identical across re-runs).
    """

    current: Optional["PathManager"] = None

    def __init__(self, precondition: Optional[list] = None, max_paths: int = 10000, timeout_ms: int = 5000, budget_s: float = 600.0):
        self.precondition = list(precondition or [])
        self.max_paths = max_paths
        self.budget_s = budget_s  # wall-clock budget of one exploration (a truncated exploration is reported, never a success)
        self.timeout_ms = timeout_ms
        self.paths = 0
        self.truncated = False
        self.domain_obligations: list[tuple[Any, list]] = []
        self._fresh = 0

    # -- per-path state
    def _reset(self, prefix: list[bool]) -> None:
        self.prefix = prefix
        self.decisions: list[bool] = []
        self.pc: list = list(self.precondition)
        self.side: list = []  # definitional side conditions (sqrt, uninterpreted axioms)
        self._fresh = 0
        self.sqrt_memo = {}
        self.decided = {}
        self.solver = z3.Solver()
        self.solver.set("timeout", self.timeout_ms)
        for c in self.pc:
            self.solver.add(c)

    def fresh(self, stem: str) -> z3.ArithRef:
        self._fresh += 1
        return z3.Real(f"__{stem}{self._fresh}")

    def assume(self, cond) -> None:
        """Add a definitional fact (always true on this path)."""
        self.pc.append(cond)
        self.side.append(cond)
        self.solver.add(cond)

    def branch(self, cond) -> bool:
        cond = z3.simplify(cond)
        if z3.is_true(cond):
            return True
        if z3.is_false(cond):
            return False
        key = cond.get_id()
        if key in self.decided:  # the same condition was already decided on this path
            return self.decided[key][0]
        idx = len(self.decisions)
        if idx < len(self.prefix):
            taken = self.prefix[idx]
        else:
            STATS["feasibility_queries"] += 2
            can_t = _timed_check(self.solver, cond, hard_ms=self.timeout_ms + 2000) != "unsat"
            can_f = _timed_check(self.solver, z3.Not(cond), hard_ms=self.timeout_ms + 2000) != "unsat"
            if can_t and can_f:
                taken = True
                self.worklist.append(self.decisions + [False])
            elif can_t:
                taken = True
            elif can_f:
                taken = False
            else:
                raise Abort("infeasible path")
        self.decisions.append(taken)
        self.decided[key] = (taken, cond)
        c = cond if taken else z3.Not(cond)
        self.pc.append(c)
        self.solver.add(c)
        return taken

    def explore(self, fn: Callable[[], Any]):
        """Yield (result_or_exception, path_condition, manager_snapshot) per path."""
        self.worklist: list[list[bool]] = [[]]
        prev = PathManager.current
        PathManager.current = self
        import time as _time

        deadline = _time.time() + self.budget_s
        try:
            while self.worklist:
                if self.paths >= self.max_paths or _time.time() > deadline:
                    self.truncated = True
                    break
                prefix = self.worklist.pop()
                self._reset(prefix)
                try:
                    out = ("ok", fn())
                except Abort:
                    continue
                except Exception as e:  # the code under test raised on this path
                    out = ("exc", e)
                self.paths += 1
                yield out[0], out[1], list(self.pc)
        finally:
            PathManager.current = prev


def _pm() -> PathManager:
    pm = PathManager.current
    if pm is None:
        raise SymbolicDomainError("symbolic boolean used outside of PathManager.explore")
    return pm


# ----------------------------------------------------------------------------
# symbolic values


class SBool:
    __slots__ = ("e",)

    def __init__(self, e):
        self.e = e

    def __bool__(self) -> bool:
        return _pm().branch(self.e)

    @staticmethod
    def _lift(o):
        if isinstance(o, SBool):
            return o.e
        if isinstance(o, (bool, numpy.bool_)):
            return z3.BoolVal(bool(o))
        if isinstance(o, SReal):
            return o.e != 0
        if isinstance(o, (int, float)):
            return z3.BoolVal(bool(o))
        return None

    def __and__(self, o):
        l = self._lift(o)
        return NotImplemented if l is None else SBool(z3.And(self.e, l))

    __rand__ = __and__

    def __or__(self, o):
        l = self._lift(o)
        return NotImplemented if l is None else SBool(z3.Or(self.e, l))

    __ror__ = __or__

    def __xor__(self, o):
        l = self._lift(o)
        return NotImplemented if l is None else SBool(z3.Xor(self.e, l))

    __rxor__ = __xor__

    def __invert__(self):
        return SBool(z3.Not(self.e))

    def logical_not(self):
        return SBool(z3.Not(self.e))

    # numeric view (``.astype(float)`` on an object array calls float(); we
    # cannot return a float, so arithmetic on SBool promotes to SReal instead)
    def _real(self) -> "SReal":
        return SReal(z3.If(self.e, z3.RealVal(1), z3.RealVal(0)))

    def __float__(self):
        # Reached by ``ndarray.astype(float)``: the result would have to be a
        # concrete float.  Branch: this keeps the real code unmodified.
        return 1.0 if bool(self) else 0.0

    def __mul__(self, o):
        return self._real() * o

    __rmul__ = __mul__

    def __add__(self, o):
        return self._real() + o

    __radd__ = __add__

    def __sub__(self, o):
        return self._real() - o

    def __rsub__(self, o):
        return o - self._real()

    def __eq__(self, o):  # type: ignore[override]
        l = self._lift(o)
        return NotImplemented if l is None else SBool(self.e == l)

    def __ne__(self, o):  # type: ignore[override]
        l = self._lift(o)
        return NotImplemented if l is None else SBool(self.e != l)

    __hash__ = None  # type: ignore[assignment]

    def __repr__(self):
        return f"SBool({self.e})"


_INF = float("inf")


class SReal:
    
    def __init__(self, e):
        if not isinstance(e, z3.ExprRef):
            e = to_z3(e)
        self.e = e

    # -- construction helpers
    @staticmethod
    def var(name: str) -> "SReal":
        return SReal(z3.Real(name))

    # -- arithmetic
    def _bin(self, o, f, swap=False):
        if isinstance(o, numpy.ndarray):
            return NotImplemented
        if isinstance(o, SBool):
            o = o._real()
        try:
            oe = to_z3(o)
        except NonFinite as nf:
            return _nonfinite_arith(self, nf.value, f.__name__, swap)
        except TypeError:
            return NotImplemented
        return SReal(f(oe, self.e) if swap else f(self.e, oe))

    def __add__(self, o):
        return self._bin(o, _add)

    def __radd__(self, o):
        return self._bin(o, _add, True)

    def __sub__(self, o):
        return self._bin(o, _sub)

    def __rsub__(self, o):
        return self._bin(o, _sub, True)

    def __mul__(self, o):
        return self._bin(o, _mul)

    def __rmul__(self, o):
        return self._bin(o, _mul, True)

    def __truediv__(self, o):
        return self._bin(o, _div)

    def __rtruediv__(self, o):
        return self._bin(o, _div, True)

    def __neg__(self):
        return SReal(-self.e)

    def __pos__(self):
        return self

    def __abs__(self):
        return SReal(z3.If(self.e >= 0, self.e, -self.e))

    def __pow__(self, k):
        if isinstance(k, (float, numpy.floating)) and float(k).is_integer():
            k = int(k)
        if isinstance(k, (int, numpy.integer)) and not isinstance(k, bool):
            k = int(k)
            if k >= 0:
                out = z3.RealVal(1)
                for _ in range(k):
                    out = out * self.e
                return SReal(out)
            return SReal(1) / (self ** (-k))
        if isinstance(k, (float, numpy.floating)) and float(k) == 0.5:
            return self.sqrt()
        raise SymbolicDomainError(f"symbolic power with exponent {k!r}")

    def __rpow__(self, base):
        if isinstance(base, (int, float, numpy.integer, numpy.floating)) and float(base) == 10.0:
            return uf("POW10", self)
        if isinstance(base, (int, float, numpy.integer, numpy.floating)) and float(base) == 2.0:
            return uf("EXP2", self)
        raise SymbolicDomainError(f"constant ** symbolic with base {base!r}")

    def __mod__(self, p):
        pe = to_z3(p)
        return SReal(self.e - pe * bounded_floor(self.e / pe))

    def __floordiv__(self, p):
        pe = to_z3(p)
        return SReal(bounded_floor(self.e / pe))

    # -- comparisons
    def _cmp(self, o, f):
        if isinstance(o, numpy.ndarray):
            return NotImplemented
        if isinstance(o, SBool):
            o = o._real()
        try:
            oe = to_z3(o)
        except NonFinite as nf:
            v = nf.value
            name = f.__name__
            if math.isnan(v):
                return SBool(z3.BoolVal(name == "_ne"))
            big = v > 0  # other side is +inf / -inf
            res = {"_lt": big, "_le": big, "_gt": not big, "_ge": not big, "_eq": False, "_ne": True}[name]
            return SBool(z3.BoolVal(res))
        except TypeError:
            return NotImplemented
        return SBool(f(self.e, oe))

    def __lt__(self, o):
        return self._cmp(o, _lt)

    def __le__(self, o):
        return self._cmp(o, _le)

    def __gt__(self, o):
        return self._cmp(o, _gt)

    def __ge__(self, o):
        return self._cmp(o, _ge)

    def __eq__(self, o):  # type: ignore[override]
        return self._cmp(o, _eq)

    def __ne__(self, o):  # type: ignore[override]
        return self._cmp(o, _ne)

    __hash__ = None  # type: ignore[assignment]

    # -- things numpy object loops call by name
    def sqrt(self):
        pm = _pm()
        key = self.e.get_id()
        if key in pm.sqrt_memo:  # sqrt of the structurally same term is the same term
            return SReal(pm.sqrt_memo[key][0])
        r = pm.fresh("sqrt")
        pm.assume(z3.And(r >= 0, r * r == self.e))
        pm.sqrt_memo[key] = (r, self.e)  # keep the argument alive so that its AST id is not reused
        return SReal(r)

    def conjugate(self):
        return self

    @property
    def real(self):
        return self

    @property
    def imag(self):
        return SReal(0)

    def exp(self):
        return uf("EXP", self)

    def exp2(self):
        return uf("EXP2", self)

    def log(self):
        return uf("LOG", self)

    def log2(self):
        return uf("LOG2", self)

    def log10(self):
        return uf("LOG10", self)

    def __float__(self):
        s = z3.simplify(self.e)
        if z3.is_rational_value(s):
            return float(s.numerator_as_long()) / float(s.denominator_as_long())
        raise SymbolicDomainError("float() of a symbolic real (a stub is missing for the numpy routine that asked)")

    def __bool__(self):
        return _pm().branch(self.e != 0)

    def __repr__(self):
        return f"SReal({z3.simplify(self.e)})"


def _nonfinite_arith(s: SReal, v: float, op: str, swap: bool):
    raise SymbolicDomainError(f"arithmetic between a symbolic real and {v!r} ({op})")


def _add(a, b):
    return a + b


def _sub(a, b):
    return a - b


def _mul(a, b):
    return a * b


def _div(a, b):
    pm = PathManager.current
    bs = z3.simplify(b)
    if z3.is_rational_value(bs):
        if bs.numerator_as_long() == 0:
            raise ZeroDivisionError("division by a concrete zero")
    elif pm is not None:
        # record the domain obligation, then restrict the path to the defined region
        pm.domain_obligations.append((b, list(pm.pc)))
        pm.assume(b != 0)
    return a / b


def _lt(a, b):
    return a < b


def _le(a, b):
    return a <= b


def _gt(a, b):
    return a > b


def _ge(a, b):
    return a >= b


def _eq(a, b):
    return a == b


def _ne(a, b):
    return a != b


FLOOR_RANGE = 6


def floor_term(q):
    """floor(q) for q in [-FLOOR_RANGE, FLOOR_RANGE) as a chain of If's (keeps queries in QF_NRA; no ToInt)."""
    out = z3.RealVal(FLOOR_RANGE - 1)
    for k in range(FLOOR_RANGE - 1, -FLOOR_RANGE, -1):
        out = z3.If(q < k, z3.RealVal(k - 1), out)
    return out


def bounded_floor(q):
    """As floor_term, and restricts the current path to the modelled range (recorded assumption)."""
    pm = PathManager.current
    if pm is None:
        return floor_term(q)
    pm.assume(z3.And(q >= -FLOOR_RANGE, q < FLOOR_RANGE))
    # split the path on the integer part: every path then carries a polynomial (If-free) term
    for k in range(-FLOOR_RANGE + 1, FLOOR_RANGE):
        if pm.branch(q < k):
            return z3.RealVal(k - 1)
    return z3.RealVal(FLOOR_RANGE - 1)


_UF: dict[str, z3.FuncDeclRef] = {}


def uf(name: str, x: SReal) -> SReal:
    if name not in _UF:
        _UF[name] = z3.Function(name, z3.RealSort(), z3.RealSort())
    return SReal(_UF[name](x.e))


def uf_decl(name: str) -> z3.FuncDeclRef:
    if name not in _UF:
        _UF[name] = z3.Function(name, z3.RealSort(), z3.RealSort())
    return _UF[name]


class SFloat(SReal, float):
    """A symbolic real that passes ``isinstance(x, float)``.  Its C-level double is NaN, so any library routine
    that silently reads the raw double (instead of calling a dunder method) poisons the result visibly."""

    def __new__(cls, e):
        return float.__new__(cls, float("nan"))

    def __init__(self, e):
        SReal.__init__(self, e)

    def _bin(self, o, f, swap=False):
        if isinstance(o, numpy.ndarray):
            # numpy would read the raw C double of a float subclass; broadcast elementwise instead (what numpy
            # itself does for a non-float scalar object)
            out = numpy.empty(o.shape, dtype=object)
            for idx in numpy.ndindex(o.shape):
                out[idx] = SReal._bin(self, o[idx], f, swap)
            return out
        return SReal._bin(self, o, f, swap)

    __hash__ = None  # type: ignore[assignment]


# ----------------------------------------------------------------------------
# arrays


class SymArray(numpy.ndarray):
    """ndarray(dtype=object) subclass; exists so that singledispatch extension points can be given one extra registration."""


def sym_vector(name: str, n: int) -> SymArray:
    a = numpy.empty(n, dtype=object)
    for i in range(n):
        a[i] = SReal.var(f"{name}{i}")
    return a.view(SymArray)


def as_sym_array(values) -> SymArray:
    a = numpy.empty(len(values), dtype=object)
    for i, v in enumerate(values):
        a[i] = v if isinstance(v, SReal) else SReal(v)
    return a.view(SymArray)


def same_cell(x, y):
    """Claim `x == y` for two cells; reflexive instances (structurally identical terms) are discharged on the spot.
    A concrete NaN / inf cell equals only the same non-finite value (a real-valued term is never NaN)."""
    nf = [isinstance(v, (float, numpy.floating)) and not math.isfinite(float(v)) for v in (x, y)]
    if any(nf):
        same = all(nf) and ((math.isnan(float(x)) and math.isnan(float(y))) or float(x) == float(y))
        return z3.BoolVal(bool(same))
    a, b = to_z3(x), to_z3(y)
    if a.eq(b):
        return z3.BoolVal(True)
    return a == b


def conj(claims):
    cs = [c for c in claims if not z3.is_true(c)]
    return z3.And(*cs) if cs else z3.BoolVal(True)


def lift(x) -> z3.ArithRef:
    """z3 term of a cell produced by the code under test (SReal, SBool or a concrete number)."""
    return to_z3(x)


# ----------------------------------------------------------------------------
# obligations


def prove(claim, pc: list, *, logic: Optional[str] = "QF_NRA", timeout_ms: int = 10000) -> tuple[str, Optional[z3.ModelRef]]:
    """
    Decide `pc => claim` with a fresh non-incremental solver.
    Returns ("proved", None) | ("refuted", model) | ("unknown", None).
    """
    s = z3.SolverFor(logic) if logic else z3.Solver()
    s.set("timeout", timeout_ms)
    for c in pc:
        s.add(c)
    s.add(z3.Not(claim))
    r = _timed_check(s, hard_ms=timeout_ms + 2000)
    _cross_check(s, r)
    if r == "unsat":
        return "proved", None
    if r == "sat":
        return "refuted", s.model()
    return "unknown", None


XCHECK = {"every": 0, "count": 0, "checked": 0, "agree": 0, "other_unknown": 0, "disagree": []}


def _cross_check(solver: z3.Solver, result: str) -> None:
    """Thorough tier: re-decide a sample of the obligations with the independent z3 4.8.12 binary (/usr/bin/z3).
    A sat/unsat disagreement is recorded and turns the run into a harness error."""
    if not XCHECK["every"] or result not in ("sat", "unsat"):
        return
    XCHECK["count"] += 1
    if XCHECK["count"] > 20 and XCHECK["count"] % XCHECK["every"]:
        return
    import os
    import subprocess
    import tempfile

    try:
        text = solver.to_smt2()
        with tempfile.NamedTemporaryFile("w", suffix=".smt2", delete=False) as f:
            f.write(text)
            path = f.name
        p = subprocess.run(["/usr/bin/z3", "-T:20", path], capture_output=True, text=True, timeout=40)
        os.unlink(path)
        out = (p.stdout.strip().splitlines() or ["unknown"])[0].strip()
    except Exception:
        out = "unknown"
    XCHECK["checked"] += 1
    if "(error" in (p.stdout if "p" in dir() else ""):
        out = "unknown"
    if out == result:
        XCHECK["agree"] += 1
    elif out in ("sat", "unsat"):
        XCHECK["disagree"].append({"z3_5": result, "z3_4.8.12": out, "query": text[:2000]})
    else:
        XCHECK["other_unknown"] += 1


def satisfiable(conds: list, *, logic: Optional[str] = "QF_NRA", timeout_ms: int = 10000) -> tuple[str, Optional[z3.ModelRef]]:
    s = z3.SolverFor(logic) if logic else z3.Solver()
    s.set("timeout", timeout_ms)
    for c in conds:
        s.add(c)
    r = _timed_check(s, hard_ms=timeout_ms + 2000)
    return r, (s.model() if r == "sat" else None)


def model_value(model: Optional[z3.ModelRef], var: z3.ArithRef) -> float:
    if model is None:
        # no model: the code under test raised on symbolic input and the caller replays at a generic point - a deterministic,
        # non-integer value per variable name (distinct names get distinct values)
        import zlib

        return 0.8125 + (zlib.crc32(str(var).encode()) % 89) * 0.375
    v = model.eval(var, model_completion=True)
    if z3.is_rational_value(v):
        return float(Fraction(v.numerator_as_long(), v.denominator_as_long()))
    if z3.is_algebraic_value(v):
        a = v.approx(20)
        return float(Fraction(a.numerator_as_long(), a.denominator_as_long()))
    raise ValueError(f"cannot read model value {v}")
