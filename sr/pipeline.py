"""Symbolic numeric columns through the real materializer pipeline."""
from __future__ import annotations

import contextlib

import formulaic  # noqa: F401
import formulaic.materializers.narwhals  # noqa: F401
import formulaic.transforms  # noqa: F401
import formulaic.utils.null_handling  # noqa: F401

from .npproxy import patched_numpy
from .symreal import sym_vector

PATCHED = (
    "formulaic.utils.null_handling",
    "formulaic.transforms.poly",
)


@contextlib.contextmanager
def symbolic_pipeline():
    with patched_numpy(*PATCHED):
        yield


def sym_ab(n: int):
    return sym_vector("a", n), sym_vector("b", n)
